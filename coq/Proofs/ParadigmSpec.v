(* Proofs/ParadigmSpec.v — property C04: the harness's node bodies ([node_of_spec]) and
   branch conditions ([cond_of_spec]) satisfy the hypotheses of the graph-level theorems
   ([node_ok], [cond_ok]) for every well-formed spec, every native subset, every
   output-splitting policy and every failure mode; hence every graph the harness can build
   ([compile_sprog]) is [prog_ok]. *)
From Eino Require Import Base.Util Model.Paradigm Model.StreamOps Model.ParadigmProg
  Model.ParadigmSpec Proofs.Paradigm Proofs.ParadigmOps Proofs.ParadigmFieldMap Proofs.ParadigmProg.
From Coq Require Import Lia.

Local Infix "+++" := String.append (at level 60, right associativity).

Arguments vsconcat : simpl never.
Arguments vsconcatR : simpl never.

(* ------------------------------------------------------------------ strings *)
Lemma stake_sdrop n s : stake n s +++ sdrop n s = s.
Proof. revert s. induction n; intros [|c s]; simpl; auto. f_equal. apply IHn. Qed.

Lemma split_str_concat pol s : concat_strings (split_str pol s) = s.
Proof.
  unfold split_str, concat_strings.
  destruct pol as [|[[p|p|]|[p|p|]|]]; cbn [fold_right String.append];
    rewrite ?app_nil_r_s, ?stake_sdrop; try reflexivity; apply stake_sdrop.
Qed.

Lemma split_str_nonnil pol s : split_str pol s <> [].
Proof. unfold split_str. destruct pol as [|[[p|p|]|[p|p|]|]]; discriminate. Qed.

(* ------------------------------------------------------------------ canonical maps *)
Lemma mval_sorted ms : sorted (List.concat ms) -> mval ms = List.concat ms.
Proof.
  destruct ms as [|a [|b r]]; intros H.
  - reflexivity.
  - simpl. rewrite app_nil_r. reflexivity.
  - unfold mval. apply ins_all_sorted, H.
Qed.

Definition halves (e : tkey * string) : amap :=
  let h := (String.length (snd e) / 2)%nat in [(fst e, stake h (snd e)); (fst e, sdrop h (snd e))].

Lemma ins_all_halves m acc : ins_all (flat_map halves m) acc = ins_all m acc.
Proof.
  revert acc. induction m as [|[k v] m IH]; intros acc; [reflexivity|].
  cbn [flat_map halves fst snd app]. rewrite !ins_all_cons. cbn [fst snd].
  rewrite ins_same, stake_sdrop. apply IH.
Qed.

Lemma concat_singletons_gen {X} (m : list X) : List.concat (map (fun e => [e]) m) = m.
Proof. induction m; simpl; congruence. Qed.

Lemma concat_flat_halves m :
  List.concat (flat_map (fun e => let h := (String.length (snd e) / 2)%nat in
                                  [[(fst e, stake h (snd e))]; [(fst e, sdrop h (snd e))]]) m)
  = flat_map halves m.
Proof. induction m as [|e m IH]; [reflexivity|]. simpl. do 2 f_equal. exact IH. Qed.

Lemma split_map_nonnil pol m : split_map pol m <> [].
Proof.
  unfold split_map. destruct pol as [|[[p|p|]|[p|p|]|]]; try discriminate; destruct m; discriminate.
Qed.

Lemma split_map_mval pol m : sorted m -> mval (split_map pol m) = m.
Proof.
  intros Hs. unfold split_map.
  destruct pol as [|[[p|p|]|[p|p|]|]]; try reflexivity.
  - (* 3 *) unfold mval. cbn [List.concat app]. rewrite app_nil_r. apply ins_all_sorted, Hs.
  - (* 2 *) destruct m as [|e m]; [reflexivity|].
    cbn [flat_map app]. unfold mval.
    change ([(fst e, stake (String.length (snd e) / 2) (snd e))]
            :: [(fst e, sdrop (String.length (snd e) / 2) (snd e))] :: ?[r])
      with (flat_map (fun e => let h := (String.length (snd e) / 2)%nat in
                               [[(fst e, stake h (snd e))]; [(fst e, sdrop h (snd e))]]) (e :: m)).
    rewrite concat_flat_halves, ins_all_halves. apply ins_all_sorted, Hs.
  - (* 1 *) destruct m as [|e m]; [reflexivity|].
    rewrite mval_sorted; rewrite concat_singletons_gen; auto.
Qed.

(* the chunks of a split hold the keys of the map, no others *)
Lemma split_map_keys pol m key :
  In key (mkeys (List.concat (split_map pol m))) <-> In key (mkeys m).
Proof.
  unfold split_map.
  destruct pol as [|[[p|p|]|[p|p|]|]]; try (simpl; rewrite ?app_nil_r; reflexivity).
  - (* 2 *) destruct m as [|e m]; [simpl; reflexivity|].
    rewrite concat_flat_halves. generalize (e :: m). clear. intros m.
    induction m as [|e m IH]; [reflexivity|]. cbn [flat_map halves app mkeys map fst].
    unfold mkeys in IH. simpl. rewrite IH. intuition.
  - (* 1 *) destruct m as [|e m]; [simpl; reflexivity|]. rewrite concat_singletons_gen. reflexivity.
Qed.

Lemma mok_keys ms m : (forall key, In key (mkeys (List.concat ms)) <-> In key (mkeys m)) ->
  mcons m = true -> mok ms = true.
Proof.
  intros Hk Hc. destruct ms as [|a [|b ms]]; [|reflexivity|].
  - unfold mok. rewrite mcons_canon. simpl. reflexivity.
  - unfold mok. rewrite mcons_canon. rewrite (mcons_keys _ m Hk). exact Hc.
Qed.

Lemma split_map_mok pol m : mcons m = true -> mok (split_map pol m) = true.
Proof. apply mok_keys. intros key. apply split_map_keys. Qed.

(* chunks whose values are all strings concatenate *)
Lemma mok_flat ms : (forall m, In m ms -> flat_keys (mkeys m)) -> mok ms = true.
Proof.
  intros H. destruct ms as [|a [|b ms]]; [| reflexivity|].
  - unfold mok. rewrite mcons_canon. reflexivity.
  - unfold mok. rewrite mcons_canon. apply mcons_spec, flat_Cons.
    intros key Hk. unfold mkeys in Hk. apply in_map_iff in Hk as (e & <- & He).
    apply in_concat in He as (m & Hm & He). apply (H m Hm). unfold mkeys. apply in_map, He.
Qed.

(* ------------------------------------------------------------------ emit *)
Definition canon (y : val) : Prop :=
  match y with VS _ => True | VM m => sorted m /\ mcons m = true end.

Lemma map_Val_VS ss : map Val (map VS ss) = sVS ss.
Proof. symmetry. apply sVS_vals. Qed.
Lemma map_Val_VM ms : map Val (map VM ms) = sVM ms.
Proof. symmetry. apply sVM_vals. Qed.

Lemma split_val_nonnil pol y : split_val pol y <> [].
Proof.
  destruct y; simpl; intros H; apply map_eq_nil in H;
    [exact (split_str_nonnil _ _ H)|exact (split_map_nonnil _ _ H)].
Qed.

Lemma split_val_concat pol y : canon y -> vsconcat (map Val (split_val pol y)) = Ok y.
Proof.
  destruct y as [s|m]; simpl; intros Hc.
  - rewrite map_Val_VS, vsconcat_sVS by apply split_str_nonnil. rewrite split_str_concat. reflexivity.
  - destruct Hc as (Hs & Hc).
    rewrite map_Val_VM, vsconcat_sVM_ok; [|apply split_map_nonnil|apply split_map_mok, Hc].
    rewrite split_map_mval; auto.
Qed.

Lemma flat_pair k1 v1 k2 v2 : flat_keys (mkeys (ins_all [(kstr k1, v1); (kstr k2, v2)] [])).
Proof.
  intros key Hk. apply (proj1 (keys_ins_all0 _ _)) in Hk. simpl in Hk. destruct Hk as [<-|[<-|[]]]; reflexivity.
Qed.

(* what a node emits: in canonical form, or (kind 4: the input map under a key) in one chunk *)
Definition okout (sp : nspec) (y : val) : Prop := N.eqb (ns_kind sp) 4 = true \/ canon y.

Lemma f_spec_okout sp x y : f_spec sp x = Ok y -> okout sp y.
Proof.
  unfold okout, f_spec.
  destruct (ns_kind sp) as [|[[p|p|]|[p|[p|p|]|]|]], x; try discriminate; intros H; inversion H; simpl; auto.
  - right. split; [repeat constructor; intros ? []|apply mcons_single].
  - right. split; [apply sorted_ins_all; constructor|apply mcons_spec, flat_Cons, flat_pair].
Qed.

Lemma vsconcat_bad_in s e : In (Bad e) s -> failed (vsconcat s).
Proof. intros H. apply vsconcat_bad. exists e. exact H. Qed.

Lemma emit_ok sp y : N.eqb (ns_fail sp) 2 = false -> okout sp y -> vsconcat (emit sp y) = Ok y.
Proof.
  intros Hf [E|Hc]; unfold emit; rewrite Hf.
  - rewrite E. reflexivity.
  - destruct (N.eqb (ns_kind sp) 4); [reflexivity|apply split_val_concat, Hc].
Qed.

Lemma emit_fails sp y : N.eqb (ns_fail sp) 2 = true -> failed (vsconcat (emit sp y)).
Proof.
  intros Hf. unfold emit. rewrite Hf. apply (vsconcat_bad_in _ e_node).
  apply in_or_app. right. left. reflexivity.
Qed.

Lemma emit_nonnil sp y : emit sp y <> [].
Proof.
  unfold emit. destruct (N.eqb (ns_fail sp) 2).
  - intros H. apply app_eq_nil in H as [_ H]. discriminate.
  - intros H. apply map_eq_nil in H. destruct (N.eqb (ns_kind sp) 4); [discriminate|].
    exact (split_val_nonnil _ _ H).
Qed.

(* ------------------------------------------------------------------ the chunk-by-chunk transformer *)
Lemma stream_shape (s : stream val) :
  (exists cs, s = sVS cs) \/ (exists it, In it s /\ forall c, it <> Val (VS c)).
Proof.
  induction s as [|it s IH].
  - left. exists []. reflexivity.
  - destruct it as [[c|m]|e].
    + destruct IH as [(cs & ->)|(it & Hin & Hn)].
      * left. exists (c :: cs). reflexivity.
      * right. exists it. split; [right; exact Hin|exact Hn].
    + right. exists (Val (VM m)). split; [left; reflexivity|discriminate].
    + right. exists (Bad e). split; [left; reflexivity|discriminate].
Qed.

Lemma upto_bad_vals xs : upto_bad (map Val xs) = (map Val xs, false).
Proof. induction xs as [|x xs IH]; simpl; auto. rewrite IH. reflexivity. Qed.

Lemma upto_bad_bad t e : In (Bad e) t ->
  exists r e', upto_bad t = (r, true) /\ In (Bad e') r.
Proof.
  induction t as [|it t IH]; intros []; subst.
  - exists [Bad e], e. split; [reflexivity|left; reflexivity].
  - destruct it as [x|e0].
    + destruct (IH H) as (r & e' & E & Hin). exists (Val x :: r), e'. simpl. rewrite E.
      split; [reflexivity|right; exact Hin].
    + exists [Bad e0], e0. split; [reflexivity|left; reflexivity].
Qed.

Section Live.
  Variable sp : nspec.
  Hypothesis Hfail : N.eqb (ns_fail sp) 2 = false.

  Definition fw (it : item val) : item val :=
    match it with
    | Val (VS c) => match ns_kind sp with
                    | 0%N => Val (VS c)
                    | _ => Val (VM (ins_all [(kstr (ns_k1 sp), c); (kstr (ns_k2 sp), c)] []))
                    end
    | Val (VM _) => Bad e_type
    | Bad e => Bad e
    end.

  Lemma live_T_eq s :
    live_T sp s =
    let pre := match ns_kind sp with
               | 0%N => VS (ns_tag sp +++ "("%string)
               | _ => VM [(kstr (ns_k1 sp), ns_tag sp +++ "<"%string)]
               end in
    let suf := match ns_kind sp with
               | 0%N => VS ")"%string
               | _ => VM [(kstr (ns_k2 sp), ">"%string)]
               end in
    let (r, b) := upto_bad (map fw s) in Val pre :: r ++ (if b then [] else [Val suf]).
  Proof. unfold live_T. rewrite Hfail. reflexivity. Qed.

  (* an input that is not a stream of strings: both sides fail *)
  Lemma live_T_bad_input s it :
    In it s -> (forall c, it <> Val (VS c)) -> failed (vsconcat (live_T sp s)).
  Proof.
    intros Hin Hn. rewrite live_T_eq. cbv zeta.
    assert (Hb : exists e, In (Bad e) (map fw s)).
    { destruct it as [[c|m]|e].
      - exfalso. eapply Hn; reflexivity.
      - exists e_type. apply (in_map fw) in Hin. exact Hin.
      - exists e. apply (in_map fw) in Hin. exact Hin. }
    destruct Hb as (e & Hb). destruct (upto_bad_bad _ _ Hb) as (r & e' & -> & Hr).
    apply (vsconcat_bad_in _ e'). right. apply in_or_app. left. exact Hr.
  Qed.

  Lemma live_T_bad_input_bad s it :
    In it s -> (forall c, it <> Val (VS c)) -> has_bad (live_T sp s).
  Proof.
    intros Hin Hn. rewrite live_T_eq. cbv zeta.
    assert (Hb : exists e, In (Bad e) (map fw s)).
    { destruct it as [[c|m]|e].
      - exfalso. eapply Hn; reflexivity.
      - exists e_type. apply (in_map fw) in Hin. exact Hin.
      - exists e. apply (in_map fw) in Hin. exact Hin. }
    destruct Hb as (e & Hb). destruct (upto_bad_bad _ _ Hb) as (r & e' & -> & Hr).
    exists e'. right. apply in_or_app. left. exact Hr.
  Qed.

  Lemma f_spec_not_strings s it x :
    (ns_kind sp = 0%N \/ ns_kind sp = 2%N) ->
    In it s -> (forall c, it <> Val (VS c)) -> vsconcat s = Ok x -> failed (f_spec sp x).
  Proof.
    intros Hk Hin Hn E.
    apply vsconcat_ok in E as [(ss & _ & -> & _)|(ms & _ & -> & -> & _)].
    - exfalso. apply in_sVS in Hin as (a & ->). eapply Hn; reflexivity.
    - unfold f_spec. destruct Hk as [-> | ->]; apply failed_Err.
  Qed.

  Lemma concat_strings_snoc cs z : concat_strings (cs ++ [z]) = concat_strings cs +++ z.
  Proof. rewrite concat_strings_app. unfold concat_strings at 2. simpl. rewrite app_nil_r_s. reflexivity. Qed.

  Lemma live_T_kind0 cs : ns_kind sp = 0%N -> cs <> [] ->
    vsconcat (live_T sp (sVS cs)) = res_bind (vsconcat (sVS cs)) (f_spec sp).
  Proof.
    intros Hk Hcs. rewrite live_T_eq, Hk. cbv zeta.
    assert (E : map fw (sVS cs) = map Val (map VS cs)).
    { unfold sVS. rewrite !map_map. apply map_ext. intros c. unfold fw. rewrite Hk. reflexivity. }
    rewrite E, upto_bad_vals.
    change (Val (VS (ns_tag sp +++ "(")) :: map Val (map VS cs) ++ [Val (VS ")")])
      with (map Val (map VS ((ns_tag sp +++ "(") :: cs)) ++ map Val (map VS [")"%string])).
    rewrite <- !map_app, map_Val_VS.
    rewrite vsconcat_sVS by discriminate.
    rewrite vsconcat_sVS by exact Hcs. cbn [res_bind]. unfold f_spec. rewrite Hk.
    rewrite concat_strings_snoc. unfold concat_strings at 1. cbn [fold_right].
    fold (concat_strings cs). rewrite !app_assoc_s. reflexivity.
  Qed.

  Definition pair_entries (c : string) : amap := [(kstr (ns_k1 sp), c); (kstr (ns_k2 sp), c)].

  Lemma ins_pairs cs : ns_k1 sp <> ns_k2 sp -> forall x y,
    ins_all (flat_map pair_entries cs) (ins (kstr (ns_k2 sp)) y (ins (kstr (ns_k1 sp)) x []))
    = ins (kstr (ns_k2 sp)) (y +++ concat_strings cs) (ins (kstr (ns_k1 sp)) (x +++ concat_strings cs) []).
  Proof.
    intros Hne. induction cs as [|c cs IH]; intros x y.
    - unfold concat_strings. simpl. rewrite !app_nil_r_s. reflexivity.
    - cbn [flat_map pair_entries app]. rewrite !ins_all_cons. cbn [fst snd].
      rewrite (ins_comm (kstr (ns_k1 sp)) c (kstr (ns_k2 sp)) y) by (unfold kstr; congruence).
      rewrite ins_same, ins_same, IH.
      unfold concat_strings. cbn [fold_right]. rewrite !app_assoc_s. reflexivity.
  Qed.

  Lemma concat_canon_chunks cs acc :
    ins_all (List.concat (map (fun c => ins_all (pair_entries c) []) cs)) acc
    = ins_all (flat_map pair_entries cs) acc.
  Proof.
    revert acc. induction cs as [|c cs IH]; intros acc; [reflexivity|].
    cbn [map List.concat flat_map]. rewrite !ins_all_app, ins_all_canon0. apply IH.
  Qed.

  Lemma live_T_kind2 cs : ns_kind sp = 2%N -> ns_k1 sp <> ns_k2 sp -> cs <> [] ->
    vsconcat (live_T sp (sVS cs)) = res_bind (vsconcat (sVS cs)) (f_spec sp).
  Proof.
    intros Hk Hne Hcs. rewrite live_T_eq, Hk. cbv zeta.
    set (k1 := kstr (ns_k1 sp)) in *. set (k2 := kstr (ns_k2 sp)) in *.
    assert (E : map fw (sVS cs) = map Val (map VM (map (fun c => ins_all (pair_entries c) []) cs))).
    { unfold sVS. rewrite !map_map. apply map_ext. intros c. unfold fw. rewrite Hk. reflexivity. }
    rewrite E, upto_bad_vals.
    set (mid := map (fun c => ins_all (pair_entries c) []) cs).
    change (Val (VM [(k1, ns_tag sp +++ "<")]) :: map Val (map VM mid) ++ [Val (VM [(k2, ">"%string)])])
      with (map Val (map VM ([(k1, ns_tag sp +++ "<"%string)] :: mid)) ++ map Val (map VM [[(k2, ">"%string)]])).
    rewrite <- !map_app, map_Val_VM.
    rewrite vsconcat_sVM_ok; [|discriminate|].
    2:{ apply mok_flat. intros m Hm. cbn [app] in Hm. destruct Hm as [<-|Hm].
        - intros key [<-|[]]. reflexivity.
        - apply in_app_or in Hm as [Hm|[<-|[]]].
          + unfold mid in Hm. apply in_map_iff in Hm as (c & <- & _). apply flat_pair.
          + intros key [<-|[]]. reflexivity. }
    rewrite vsconcat_sVS by exact Hcs. cbn [res_bind]. unfold f_spec. rewrite Hk.
    do 2 f_equal.
    destruct cs as [|c cs]; [congruence|].
    unfold mid. cbn [map app]. unfold mval.
    cbn [List.concat]. rewrite concat_app. cbn [List.concat]. rewrite app_nil_r.
    cbn [app]. rewrite ins_all_cons. cbn [fst snd].
    rewrite ins_all_app, ins_all_app, ins_all_canon0.
    fold k1 k2.
    change (ins_all (pair_entries c) (ins k1 (ns_tag sp +++ "<") []))
      with (ins k2 c (ins k1 c (ins k1 (ns_tag sp +++ "<") []))).
    rewrite ins_same.
    rewrite concat_canon_chunks. unfold k1 at 1 2, k2 at 1. rewrite ins_pairs by exact Hne.
    fold k1 k2. rewrite ins_all_cons. cbn [fst snd ins_all fold_left].
    change (ins_all [] ?m) with m.
    rewrite ins_same.
    rewrite !ins_all_cons. cbn [fst snd]. change (ins_all [] ?m) with m.
    unfold concat_strings. cbn [fold_right]. fold (concat_strings cs).
    rewrite !app_assoc_s. reflexivity.
  Qed.
End Live.

(* ------------------------------------------------------------------ harness nodes are consistent *)
(* the function of the whole input a harness node computes in every native *)
Definition spec_fun (sp : nspec) (x : val) : res val :=
  if N.eqb (ns_fail sp) 0 then f_spec sp x else Err e_node.

Lemma failed_spec_fun_bind sp (r : res val) : N.eqb (ns_fail sp) 0 = false -> failed (res_bind r (spec_fun sp)).
Proof. intros H. unfold spec_fun. rewrite H. destruct r; simpl; [apply failed_Err|apply failed_Err|apply failed_Panic]. Qed.

Lemma spec_wf_fail sp : spec_wf sp = true ->
  ns_fail sp = 0%N \/ ns_fail sp = 1%N \/ ns_fail sp = 2%N.
Proof.
  unfold spec_wf. intros H. apply andb_prop in H as (H & _). apply andb_prop in H as (_ & H).
  apply N.leb_le in H. lia.
Qed.

Lemma spec_wf_live sp : spec_wf sp = true -> ns_T sp = true -> is_live sp = true ->
  ns_kind sp = 0%N \/ (ns_kind sp = 2%N /\ ns_k1 sp <> ns_k2 sp) \/ ns_kind sp = 4%N.
Proof.
  unfold spec_wf. intros H HT HL. apply andb_prop in H as (_ & H). rewrite HT, HL in H. simpl in H.
  pose proof HL as HL'. unfold is_live in HL'. apply andb_prop in HL' as (_ & HK).
  apply Bool.orb_true_iff in HK as [HK|HK]; [apply Bool.orb_true_iff in HK as [HK|HK]|];
    apply N.eqb_eq in HK; [left; exact HK|right; left|right; right; exact HK].
  split; auto. rewrite HK in H. simpl in H. apply Bool.negb_true_iff, N.eqb_neq in H. exact H.
Qed.

(* ------------------------------------------------------------------ the chunk-by-chunk transformer of kind 4 *)
Lemma stream_shapeM (s : stream val) :
  (exists ms, s = sVM ms) \/ (exists it, In it s /\ forall m, it <> Val (VM m)).
Proof.
  induction s as [|it s IH].
  - left. exists []. reflexivity.
  - destruct it as [[c|m]|e].
    + right. exists (Val (VS c)). split; [left; reflexivity|discriminate].
    + destruct IH as [(ms & ->)|(it & Hin & Hn)].
      * left. exists (m :: ms). reflexivity.
      * right. exists it. split; [right; exact Hin|exact Hn].
    + right. exists (Bad e). split; [left; reflexivity|discriminate].
Qed.

Lemma fw4_sVM sp ms : map (fw4 sp) (sVM ms) = map Val (map VM (map (nest (ns_k1 sp)) ms)).
Proof. unfold sVM. rewrite !map_map. reflexivity. Qed.

Lemma live_T4_maps sp ms : N.eqb (ns_fail sp) 2 = false ->
  live_T4 sp (sVM ms) = sVM (map (nest (ns_k1 sp)) ms).
Proof. intros Hf. unfold live_T4. rewrite Hf, fw4_sVM, upto_bad_vals. cbn [fst]. symmetry. apply sVM_vals. Qed.

Lemma live_T4_bad_input sp s it : N.eqb (ns_fail sp) 2 = false ->
  In it s -> (forall m, it <> Val (VM m)) -> has_bad (live_T4 sp s).
Proof.
  intros Hf Hin Hn. unfold live_T4. rewrite Hf.
  assert (Hb : exists e, In (Bad e) (map (fw4 sp) s)).
  { destruct it as [[c|m]|e].
    - exists e_type. apply (in_map (fw4 sp)) in Hin. exact Hin.
    - exfalso. eapply Hn; reflexivity.
    - exists e. apply (in_map (fw4 sp)) in Hin. exact Hin. }
  destruct Hb as (e & Hb). destruct (upto_bad_bad _ _ Hb) as (r & e' & -> & Hr). exists e'. exact Hr.
Qed.

Lemma f_spec4_not_maps sp s it x : ns_kind sp = 4%N ->
  In it s -> (forall m, it <> Val (VM m)) -> vsconcat s = Ok x -> failed (f_spec sp x).
Proof.
  intros Hk Hin Hn E.
  apply vsconcat_ok in E as [(ss & _ & -> & ->)|(ms & _ & -> & _ & _)].
  - unfold f_spec. rewrite Hk. apply failed_Err.
  - exfalso. apply in_sVM in Hin as (a & ->). eapply Hn; reflexivity.
Qed.

Lemma live_T4_agree sp st : N.eqb (ns_fail sp) 2 = false -> ns_kind sp = 4%N -> st <> [] ->
  agree (vsconcat (live_T4 sp st)) (res_bind (vsconcat st) (f_spec sp)).
Proof.
  intros Hf Hk Hst. destruct (stream_shapeM st) as [(ms & ->)|(it & Hin & Hn)].
  - assert (Hms : ms <> []) by (destruct ms; [exfalso; apply Hst; reflexivity|discriminate]).
    rewrite live_T4_maps by exact Hf.
    rewrite !vsconcat_sVM by (destruct ms; [congruence|discriminate]).
    rewrite mok_nest, mval_nest by exact Hms.
    destruct (mok ms); cbn [res_bind]; [|exact I].
    unfold f_spec. rewrite Hk. reflexivity.
  - apply agree_failed; [apply vsconcat_bad; eapply live_T4_bad_input; eauto|].
    destruct (vsconcat st) as [x| |] eqn:E; cbn [res_bind]; [|apply failed_Err|apply failed_Panic].
    eapply f_spec4_not_maps; eauto.
Qed.

Lemma live_T4_nonnil sp s : s <> [] -> live_T4 sp s <> [].
Proof.
  intros Hs. unfold live_T4. destruct (N.eqb (ns_fail sp) 2); [discriminate|].
  destruct s as [|it s]; [congruence|]. cbn [map upto_bad]. destruct (fw4 sp it); [|discriminate].
  destruct (upto_bad (map (fw4 sp) s)). discriminate.
Qed.

Lemma live_T4_sound sp s : s <> [] -> sound s -> sound (live_T4 sp s).
Proof.
  intros Hs Hso. destruct (N.eqb (ns_fail sp) 2) eqn:Hf.
  - left. exists e_node. unfold live_T4. rewrite Hf. left. reflexivity.
  - destruct (stream_shapeM s) as [(ms & ->)|(it & Hin & Hn)].
    + assert (Hms : ms <> []) by (destruct ms; [exfalso; apply Hs; reflexivity|discriminate]).
      rewrite live_T4_maps by exact Hf.
      apply sound_cases in Hso as [(e & Hb)|[(ss & _ & E)|(ms' & _ & E & Hok)]].
      * apply in_sVM in Hb as (a & Ha). discriminate.
      * exfalso. destruct ms as [|m ms]; [congruence|]. destruct ss; discriminate.
      * assert (ms' = ms).
        { clear -E. revert ms' E. induction ms as [|m ms IH]; intros [|m' ms'] E; try discriminate; auto.
          inversion E. f_equal. apply IH. assumption. }
        subst ms'. right. eexists. apply vsconcat_sVM_ok; [destruct ms; [congruence|discriminate]|].
        rewrite mok_nest; auto.
    + left. eapply live_T4_bad_input; eauto.
Qed.

Lemma agree_of_eq {X} (a b : res X) : a = b -> agree a b.
Proof. intros ->. apply agree_refl. Qed.

(* the Transform native on a non-empty stream *)
Lemma spec_T_consistent sp : spec_wf sp = true -> ns_T sp = true -> forall st, st <> [] ->
  forall t, nT (node_of_spec sp) = Some t ->
  agree (vsconcatR (t st)) (res_bind (vsconcat st) (spec_fun sp)).
Proof.
  intros Hwf HT st Hst t Et. unfold node_of_spec in Et. cbn [nT] in Et. rewrite HT in Et.
  inversion Et as [Et']. clear Et Et'.
  destruct (spec_wf_fail sp Hwf) as [Hf|[Hf|Hf]]; rewrite Hf; cbn [N.eqb Pos.eqb].
  - (* no failure *)
    assert (Hf2 : N.eqb (ns_fail sp) 2 = false) by (rewrite Hf; reflexivity).
    assert (Esf : forall r, res_bind r (spec_fun sp) = res_bind r (f_spec sp)).
    { intros r. unfold spec_fun. rewrite Hf. reflexivity. }
    rewrite Esf.
    destruct (is_live sp) eqn:HL; rewrite vsconcatR_Ok.
    + destruct (spec_wf_live sp Hwf HT HL) as [Hk|[(Hk & Hne)|Hk]].
      3:{ rewrite Hk. cbn [N.eqb Pos.eqb]. apply live_T4_agree; auto. }
      all: rewrite Hk; cbn [N.eqb Pos.eqb];
        destruct (stream_shape st) as [(cs & ->)|(it & Hin & Hn)].
      * assert (Hcs : cs <> []) by (destruct cs; [exfalso; apply Hst; reflexivity|discriminate]).
        apply agree_of_eq. apply live_T_kind0; auto.
      * apply agree_failed; [eapply live_T_bad_input; eauto|].
        destruct (vsconcat st) as [x| |] eqn:E; cbn [res_bind];
          [|apply failed_Err|apply failed_Panic].
        eapply f_spec_not_strings; eauto.
      * assert (Hcs : cs <> []) by (destruct cs; [exfalso; apply Hst; reflexivity|discriminate]).
        apply agree_of_eq. apply live_T_kind2; auto.
      * apply agree_failed; [eapply live_T_bad_input; eauto|].
        destruct (vsconcat st) as [x| |] eqn:E; cbn [res_bind];
          [|apply failed_Err|apply failed_Panic].
        eapply f_spec_not_strings; eauto.
    + destruct (vsconcat st) as [x| |]; cbn [res_bind].
      * destruct (f_spec sp x) as [y| |] eqn:Ey.
        -- rewrite emit_ok; [apply agree_refl|exact Hf2|eapply f_spec_okout; eauto].
        -- exact I.
        -- exact I.
      * exact I.
      * exact I.
  - (* call-time failure *)
    apply agree_failed; [apply vsconcatR_failed, failed_Err|].
    apply failed_spec_fun_bind. rewrite Hf. reflexivity.
  - (* error item mid-stream *)
    assert (Hf2 : N.eqb (ns_fail sp) 2 = true) by (rewrite Hf; reflexivity).
    apply agree_failed; [|apply failed_spec_fun_bind; rewrite Hf; reflexivity].
    destruct (is_live sp); rewrite vsconcatR_Ok.
    + destruct (N.eqb (ns_kind sp) 4).
      * unfold live_T4. rewrite Hf2. apply (vsconcat_bad_in _ e_node). left. reflexivity.
      * unfold live_T. rewrite Hf2. apply (vsconcat_bad_in _ e_node). right. left. reflexivity.
    + destruct (vsconcat st) as [x| |]; try (eapply vsconcat_bad_in; left; reflexivity).
      destruct (f_spec sp x) as [y| |]; try (eapply vsconcat_bad_in; left; reflexivity).
      apply emit_fails, Hf2.
Qed.

Lemma spec_consistent sp : spec_wf sp = true ->
  node_consistent val val vconcat vconcat (node_of_spec sp) (spec_fun sp).
Proof.
  intros Hwf.
  destruct (spec_wf_fail sp Hwf) as [Hf|[Hf|Hf]].
  - (* never fails *)
    assert (Esf : forall x, spec_fun sp x = f_spec sp x) by (intros; unfold spec_fun; rewrite Hf; reflexivity).
    constructor.
    + intros i Ei x. unfold node_of_spec in Ei. cbn [nI] in Ei. destruct (ns_I sp); [|discriminate].
      inversion Ei. rewrite Hf, Esf. apply agree_refl.
    + intros s Es x. unfold node_of_spec in Es. cbn [nS] in Es. destruct (ns_S sp); [|discriminate].
      inversion Es. rewrite Hf, Esf. cbn [N.eqb].
      destruct (f_spec sp x) as [y| |] eqn:Ey; cbn [res_bind sconcatR]; try exact I.
      change (agree (vsconcat (emit sp y)) (Ok y)).
      rewrite emit_ok; [apply agree_refl|rewrite Hf; reflexivity|eapply f_spec_okout; eauto].
    + intros c Ec st Hst. unfold node_of_spec in Ec. cbn [nC] in Ec. destruct (ns_C sp); [|discriminate].
      inversion Ec. rewrite Hf. cbn [N.eqb].
      apply agree_of_eq. fold (vsconcat st). destruct (vsconcat st); cbn [res_bind]; auto.
    + intros t Et st Hst. destruct (ns_T sp) eqn:HT.
      * exact (spec_T_consistent sp Hwf HT st Hst t Et).
      * unfold node_of_spec in Et. cbn [nT] in Et. rewrite HT in Et. discriminate.
  - (* fails at call time in every native *)
    assert (Hf0 : N.eqb (ns_fail sp) 0 = false) by (rewrite Hf; reflexivity).
    assert (Esf : forall x, spec_fun sp x = Err e_node) by (intros; unfold spec_fun; rewrite Hf0; reflexivity).
    constructor.
    + intros i Ei x. unfold node_of_spec in Ei. cbn [nI] in Ei. destruct (ns_I sp); [|discriminate].
      inversion Ei. rewrite Hf0, Esf. exact I.
    + intros s Es x. unfold node_of_spec in Es. cbn [nS] in Es. destruct (ns_S sp); [|discriminate].
      inversion Es. rewrite Hf, Esf. exact I.
    + intros c Ec st Hst. unfold node_of_spec in Ec. cbn [nC] in Ec. destruct (ns_C sp); [|discriminate].
      inversion Ec. rewrite Hf0. apply agree_failed; [apply failed_Err|apply failed_spec_fun_bind, Hf0].
    + intros t Et st Hst. destruct (ns_T sp) eqn:HT.
      * exact (spec_T_consistent sp Hwf HT st Hst t Et).
      * unfold node_of_spec in Et. cbn [nT] in Et. rewrite HT in Et. discriminate.
  - (* error item mid-stream (call-time failure in the natives without an output stream) *)
    assert (Hf0 : N.eqb (ns_fail sp) 0 = false) by (rewrite Hf; reflexivity).
    assert (Esf : forall x, spec_fun sp x = Err e_node) by (intros; unfold spec_fun; rewrite Hf0; reflexivity).
    constructor.
    + intros i Ei x. unfold node_of_spec in Ei. cbn [nI] in Ei. destruct (ns_I sp); [|discriminate].
      inversion Ei. rewrite Hf0, Esf. exact I.
    + intros s Es x. unfold node_of_spec in Es. cbn [nS] in Es. destruct (ns_S sp); [|discriminate].
      inversion Es. rewrite Hf, Esf. cbn [N.eqb Pos.eqb].
      apply agree_failed; [|apply failed_Err].
      destruct (f_spec sp x) as [y| |]; cbn [res_bind sconcatR]; [|apply failed_Err|apply failed_Panic].
      change (failed (vsconcat (emit sp y))). apply emit_fails. rewrite Hf. reflexivity.
    + intros c Ec st Hst. unfold node_of_spec in Ec. cbn [nC] in Ec. destruct (ns_C sp); [|discriminate].
      inversion Ec. rewrite Hf0. apply agree_failed; [apply failed_Err|apply failed_spec_fun_bind, Hf0].
    + intros t Et st Hst. destruct (ns_T sp) eqn:HT.
      * exact (spec_T_consistent sp Hwf HT st Hst t Et).
      * unfold node_of_spec in Et. cbn [nT] in Et. rewrite HT in Et. discriminate.
Qed.

Lemma spec_has_any sp : spec_wf sp = true -> has_any (node_of_spec sp) = true.
Proof.
  unfold spec_wf. intros H. apply andb_prop in H as (H & _). apply andb_prop in H as (H & _).
  unfold has_any, has, node_of_spec. cbn [nI nS nC nT].
  destruct (ns_I sp), (ns_S sp), (ns_C sp), (ns_T sp); simpl in *; auto.
Qed.

Lemma emit_sound sp y : okout sp y -> sound (emit sp y).
Proof.
  intros Hc. destruct (N.eqb (ns_fail sp) 2) eqn:Hf.
  - left. exists e_node. unfold emit. rewrite Hf. apply in_or_app. right. left. reflexivity.
  - right. exists y. apply emit_ok; auto.
Qed.

Lemma live_T_sound sp s : spec_wf sp = true -> ns_T sp = true -> is_live sp = true ->
  N.eqb (ns_kind sp) 4 = false -> s <> [] -> sound (live_T sp s).
Proof.
  intros Hwf HT HL H4 Hs. destruct (N.eqb (ns_fail sp) 2) eqn:Hf.
  - left. exists e_node. unfold live_T. rewrite Hf. right. left. reflexivity.
  - destruct (stream_shape s) as [(cs & ->)|(it & Hin & Hn)].
    + assert (Hcs : cs <> []) by (destruct cs; [exfalso; apply Hs; reflexivity|discriminate]).
      right.
      destruct (spec_wf_live sp Hwf HT HL) as [Hk|[(Hk & Hne)|Hk]].
      * rewrite (live_T_kind0 sp Hf cs Hk Hcs), vsconcat_sVS by exact Hcs. cbn [res_bind].
        unfold f_spec. rewrite Hk. eauto.
      * rewrite (live_T_kind2 sp Hf cs Hk Hne Hcs), vsconcat_sVS by exact Hcs. cbn [res_bind].
        unfold f_spec. rewrite Hk. eauto.
      * rewrite Hk in H4. discriminate.
    + left. eapply live_T_bad_input_bad; eauto.
Qed.

Lemma spec_nonempty sp : spec_wf sp = true -> node_nonempty (node_of_spec sp).
Proof.
  intros Hwf. constructor.
  - intros f Ef x o. unfold node_of_spec in Ef. cbn [nS] in Ef. destruct (ns_S sp); [|discriminate].
    inversion Ef. destruct (N.eqb (ns_fail sp) 1); [discriminate|].
    destruct (f_spec sp x) eqn:Ey; cbn [res_bind]; try discriminate.
    intros H. inversion H. split; [apply emit_nonnil|eapply emit_sound, f_spec_okout; eauto].
  - intros f Ef s o Hs Hso. unfold node_of_spec in Ef. cbn [nT] in Ef. destruct (ns_T sp) eqn:HT; [|discriminate].
    inversion Ef. destruct (N.eqb (ns_fail sp) 1); [discriminate|].
    destruct (is_live sp) eqn:HL.
    + intros H. inversion H. destruct (N.eqb (ns_kind sp) 4) eqn:H4.
      * split; [apply live_T4_nonnil, Hs|apply live_T4_sound; auto].
      * split.
        -- unfold live_T. destruct (N.eqb (ns_fail sp) 2); [discriminate|].
           destruct (upto_bad _). discriminate.
        -- apply live_T_sound; auto.
    + intros H. inversion H.
      destruct (vsconcat s); try (split; [discriminate|left; eexists; left; reflexivity]).
      destruct (f_spec sp a) eqn:Ey; try (split; [discriminate|left; eexists; left; reflexivity]).
      split; [apply emit_nonnil|eapply emit_sound, f_spec_okout; eauto].
Qed.

Theorem spec_node_ok sp : spec_wf sp = true -> node_ok (node_of_spec sp).
Proof.
  intros H. split; [apply spec_has_any, H|]. split; [apply spec_nonempty, H|].
  exists (spec_fun sp). apply spec_consistent, H.
Qed.

Theorem spec_cond_ok c : cond_ok (cond_of_spec c).
Proof.
  split.
  - unfold has_any, has, cond_of_spec. cbn [nI nS nC nT]. destruct (cs_collect c); reflexivity.
  - exists (choice c). constructor.
    + intros i Ei x. unfold cond_of_spec in Ei. cbn [nI] in Ei. destruct (cs_collect c); [discriminate|].
      inversion Ei. apply agree_refl.
    + intros s Es. discriminate.
    + intros f Ef st _. unfold cond_of_spec in Ef. cbn [nC] in Ef. destruct (cs_collect c); [|discriminate].
      inversion Ef. apply agree_refl.
    + intros t Et. discriminate.
Qed.

Lemma compile_wrap_ok w : swrap_wf w = true -> wrap_ok (compile_wrap w).
Proof.
  unfold swrap_wf, wrap_ok, compile_wrap, handler_ok. cbn [w_pre w_post]. intros H.
  apply andb_prop in H as (H1 & H2). split.
  - destruct (sw_pre w) as [[i sp]|]; simpl; auto. apply spec_node_ok, H1.
  - destruct (sw_post w) as [[i sp]|]; simpl; auto. apply spec_node_ok, H2.
Qed.

Lemma sprog_ind' (P : sprog -> Prop)
  (HN : forall w id sp, P (SNode w id sp))
  (HS : forall p q, P p -> P q -> P (SSeq p q))
  (HP : forall ps, Forall P ps -> P (SPar ps))
  (HB : forall id c alts, Forall P alts -> P (SBranch id c alts))
  (HU : forall w p, P p -> P (SSub w p))
  (HM : forall f, P (SMap f))
  (HC : forall m, P (SCheck m))
  (HI : P SId)
  (HMu : forall id c alts, Forall P alts -> P (SMulti id c alts))
  (HL : forall id c body fuel, P body -> P (SLoop id c body fuel)) : forall p, P p.
Proof.
  fix IH 1. intros [w id sp|p q|ps|id c alts|w p|f|m| |id c alts|id c body fuel].
  - apply HN.
  - apply HS; apply IH.
  - apply HP. induction ps; constructor; auto.
  - apply HB. induction alts; constructor; auto.
  - apply HU, IH.
  - apply HM.
  - apply HC.
  - apply HI.
  - apply HMu. induction alts; constructor; auto.
  - apply HL, IH.
Qed.

Theorem spec_mcond_ok c : cond_ok (mcond_of_spec c).
Proof.
  split.
  - unfold has_any, has, mcond_of_spec. cbn [nI nS nC nT]. destruct (cs_collect c); reflexivity.
  - exists (mchoice c). constructor.
    + intros i Ei x. unfold mcond_of_spec in Ei. cbn [nI] in Ei. destruct (cs_collect c); [discriminate|].
      inversion Ei. apply agree_refl.
    + intros s Es. discriminate.
    + intros f Ef st _. unfold mcond_of_spec in Ef. cbn [nC] in Ef. destruct (cs_collect c); [|discriminate].
      inversion Ef. apply agree_refl.
    + intros t Et. discriminate.
Qed.

Theorem spec_loop_cond_ok c : cond_ok (loop_cond_of_spec c).
Proof.
  split.
  - unfold has_any, has, loop_cond_of_spec. cbn [nI nS nC nT]. destruct (ls_collect c); reflexivity.
  - exists (loop_choice c). constructor.
    + intros i Ei x. unfold loop_cond_of_spec in Ei. cbn [nI] in Ei. destruct (ls_collect c); [discriminate|].
      inversion Ei. apply agree_refl.
    + intros s Es. discriminate.
    + intros f Ef st _. unfold loop_cond_of_spec in Ef. cbn [nC] in Ef. destruct (ls_collect c); [|discriminate].
      inversion Ef. apply agree_refl.
    + intros t Et. discriminate.
Qed.

(* every graph the harness can build satisfies the hypotheses of the graph-level theorems *)
Theorem compile_ok : forall p, sprog_wf p = true -> prog_ok (compile_sprog p).
Proof.
  induction p as [w id sp|p q IHp IHq|ps IH|id c alts IH|w p IHp|f|m| |id c alts IH|id c body fuel IHb] using sprog_ind';
    cbn [sprog_wf compile_sprog prog_ok]; intros H.
  - apply andb_prop in H as (Hw & Hs). split; [apply compile_wrap_ok, Hw|apply spec_node_ok, Hs].
  - apply andb_prop in H as (H1 & H2). split; auto.
  - apply andb_prop in H as (Hne & Hall). split.
    + destruct ps; [discriminate|discriminate].
    + apply all_forall. rewrite forallb_forall in Hall. rewrite Forall_forall in *.
      intros q Hq. apply in_map_iff in Hq as (p0 & <- & Hp0). apply IH; auto.
  - split; [apply spec_cond_ok|].
    apply all_forall. rewrite forallb_forall in H. rewrite Forall_forall in *.
    intros q Hq. apply in_map_iff in Hq as (p0 & <- & Hp0). apply IH; auto.
  - apply andb_prop in H as (Hw & Hp). split; [apply compile_wrap_ok, Hw|auto].
  - exact H.
  - exact I.
  - exact I.
  - split; [apply spec_mcond_ok|].
    apply all_forall. rewrite forallb_forall in H. rewrite Forall_forall in *.
    intros q Hq. apply in_map_iff in Hq as (p0 & <- & Hp0). apply IH; auto.
  - split; [apply spec_loop_cond_ok|auto].
Qed.

(* the four paradigms on the graphs of the harness: only decidable hypotheses are left, and
   the correspondence evaluates them on every case *)
Theorem harness_graphs_agree_lem
  (mrg : list nat -> list (stream val) -> stream val)
  (Hm : forall pos ls, Interleaving ls (mrg pos ls)) :
  forall p, sprog_wf p = true ->
  forall chunks x, chunks <> [] -> vsconcat (map Val chunks) = Ok x ->
    dom_ok (compile_sprog p) x = true ->
    agree (vsconcatR (g_stream mrg (compile_sprog p) x)) (g_invoke (compile_sprog p) x)
    /\ agree (g_collect mrg (compile_sprog p) (map Val chunks)) (g_invoke (compile_sprog p) x)
    /\ agree (vsconcatR (g_transform mrg (compile_sprog p) (map Val chunks))) (g_invoke (compile_sprog p) x).
Proof. intros p Hp. apply four_paradigms_lem; auto. apply compile_ok, Hp. Qed.

(* ------------------------------------------------------------------ witnesses *)
Lemma seq_mrg_interleaving pos ls : Interleaving ls (seq_mrg pos ls).
Proof. apply merge_seq_interleaving. Qed.

(* F-C04: a graph of consistent nodes on which Invoke fails and Stream succeeds *)
Lemma fanin_dupkey_refuted_lem :
  sprog_wf dupkey_prog = true
  /\ dom_ok (compile_sprog dupkey_prog) (VS "x"%string) = false
  /\ g_invoke (compile_sprog dupkey_prog) (VS "x"%string) = Err e_dupkey
  /\ vsconcatR (g_stream seq_mrg (compile_sprog dupkey_prog) (VS "x"%string))
     = Ok (VM [(kstr 5, "n3{aa=n1(x)n2(x);}"%string)])
  /\ ~ agree (vsconcatR (g_stream seq_mrg (compile_sprog dupkey_prog) (VS "x"%string)))
             (g_invoke (compile_sprog dupkey_prog) (VS "x"%string)).
Proof. vm_compute. repeat split; auto. Qed.

(* F-C04b *)
Lemma inkey_missing_refuted_lem :
  sprog_wf nokey_prog = true
  /\ dom_ok (compile_sprog nokey_prog) (VM [(kstr 0, "v"%string)]) = false
  /\ g_invoke (compile_sprog nokey_prog) (VM [(kstr 0, "v"%string)]) = Err e_nokey
  /\ vsconcatR (g_stream seq_mrg (compile_sprog nokey_prog) (VM [(kstr 0, "v"%string)]))
     = Ok (VS "n1()"%string)
  /\ ~ agree (vsconcatR (g_stream seq_mrg (compile_sprog nokey_prog) (VM [(kstr 0, "v"%string)])))
             (g_invoke (compile_sprog nokey_prog) (VM [(kstr 0, "v"%string)])).
Proof. vm_compute. repeat split; auto. Qed.

(* non-vacuity of the agreement theorem: a graph with fan-out, fan-in, derived views and a
   stream branch, inside the domain, that succeeds with a value *)
Lemma mixed_prog_in_domain :
  sprog_wf mixed_prog = true
  /\ vsconcat (map Val [VS "ab"%string; VS "c"%string]) = Ok (VS "abc"%string)
  /\ dom_ok (compile_sprog mixed_prog) (VS "abc"%string) = true
  /\ g_invoke (compile_sprog mixed_prog) (VS "abc"%string)
     = Ok (VM [(kstr 2, "n6<n3{aa=n1(abc);ab=n2(abc);}"%string); (kstr 3, "n3{aa=n1(abc);ab=n2(abc);}>"%string)])
  /\ vsconcatR (g_transform seq_mrg (compile_sprog mixed_prog) (map Val [VS "ab"%string; VS "c"%string]))
     = g_invoke (compile_sprog mixed_prog) (VS "abc"%string).
Proof. vm_compute. repeat split. Qed.

(* F-C04c *)
Lemma fieldmap_missing_refuted_lem :
  sprog_wf fmiss_prog = true
  /\ dom_ok (compile_sprog fmiss_prog) (VS "x"%string) = false
  /\ g_invoke (compile_sprog fmiss_prog) (VS "x"%string) = Err e_nokey
  /\ vsconcatR (g_stream seq_mrg (compile_sprog fmiss_prog) (VS "x"%string)) = Ok (VS "n2()"%string)
  /\ ~ agree (vsconcatR (g_stream seq_mrg (compile_sprog fmiss_prog) (VS "x"%string)))
             (g_invoke (compile_sprog fmiss_prog) (VS "x"%string)).
Proof. vm_compute. repeat split; auto. Qed.

Lemma wf_prog_in_domain :
  sprog_wf wf_prog = true
  /\ dom_ok (compile_sprog wf_prog) (VS "abc"%string) = true
  /\ g_invoke (compile_sprog wf_prog) (VS "abc"%string) = Ok (VS "n3{af=abc>;ag=n1<abc;ah=n2(abc);}"%string)
  /\ vsconcatR (g_transform seq_mrg (compile_sprog wf_prog) (map Val [VS "ab"%string; VS "c"%string]))
     = g_invoke (compile_sprog wf_prog) (VS "abc"%string).
Proof. vm_compute. repeat split. Qed.

(* F-C04d (fixed by c44e450): with the old concatenation at the interface type, the Invoke
   view of a Stream-native node with output type any fails as soon as the node emits two
   chunks, while in stream mode the edge's run-time check retypes the chunks and the
   consumer concatenates them at the string type *)
Definition any_spec : nspec := spec_simple 0 "n1" 0 0 false true false false 1 false.

Lemma any_stream_output_v0_refuted_lem :
  spec_wf any_spec = true
  /\ view_I vconcat_any_v0 (node_of_spec any_spec) (VS "ab"%string) = Err e_type
  /\ view_I vconcat (node_of_spec any_spec) (VS "ab"%string) = Ok (VS "n1(ab)"%string)
  /\ exists o, view_T vconcat (node_of_spec any_spec) (box (VS "ab"%string)) = Ok o
       /\ List.length o = 2%nat
       /\ vsconcat (s_check false o) = Ok (VS "n1(ab)"%string).
Proof.
  split; [reflexivity|]. split; [reflexivity|]. split; [reflexivity|].
  eexists. split; [vm_compute; reflexivity|]. split; reflexivity.
Qed.

(* non-vacuity with a cycle: three rounds, then on *)
Lemma loop_prog_in_domain :
  sprog_wf loop_prog = true
  /\ dom_ok (compile_sprog loop_prog) (VS "ab"%string) = true
  /\ g_invoke (compile_sprog loop_prog) (VS "ab"%string) = Ok (VS "n3(n2(n1(n2(n1(n2(n1(ab)))))))"%string)
  /\ vsconcatR (g_transform seq_mrg (compile_sprog loop_prog) (map Val [VS "a"%string; VS "b"%string]))
     = g_invoke (compile_sprog loop_prog) (VS "ab"%string).
Proof. vm_compute. repeat split. Qed.

(* non-vacuity with a multi-branch: two of three alternatives selected, fan-in of their streams *)
Lemma multi_prog_in_domain :
  sprog_wf multi_prog = true
  /\ dom_ok (compile_sprog multi_prog) (VS "ab"%string) = true
  /\ g_invoke (compile_sprog multi_prog) (VS "ab"%string) = Ok (VS "n4{aa=n1(ab);ab=n2(ab);}"%string)
  /\ vsconcatR (g_transform seq_mrg (compile_sprog multi_prog) (map Val [VS "a"%string; VS "b"%string]))
     = g_invoke (compile_sprog multi_prog) (VS "ab"%string).
Proof. vm_compute. repeat split. Qed.

(* non-vacuity with nested maps (an output key around map producers, an input key that reads
   the nested map, two levels of nesting) *)
Lemma nested_prog_in_domain :
  sprog_wf nested_prog = true
  /\ dom_ok (compile_sprog nested_prog) (VS "ab"%string) = true
  /\ g_invoke (compile_sprog nested_prog) (VS "ab"%string)
     = Ok (VS "n5{ac=n3{af=n1<ab;ag=ab>;};ad/;ad.ah=n4{aa/;aa.af=n1<ab;aa.ag=ab>;ab=n2(ab);};}"%string)
  /\ vsconcatR (g_transform seq_mrg (compile_sprog nested_prog) (map Val [VS "a"%string; VS "b"%string]))
     = g_invoke (compile_sprog nested_prog) (VS "ab"%string).
Proof. vm_compute. repeat split. Qed.

(* chunks that hold a string and a map under the same key do not concatenate (concatMaps:
   "unexpected slice element type"); a stream of such chunks is not sound, and on it the
   input-key filter (which never looks at the other keys) succeeds where the value form
   fails: why the operation-level theorems ask for sound streams *)
Definition clash_stream : stream val :=
  [Val (VM [(kstr 0, "a"%string); (kstr 1, "x"%string)]);
   Val (VM [(kstr 0, "b"%string); ((1%N, KMap), EmptyString)])].

Lemma unsound_stream_witness :
  vsconcat clash_stream = Err e_type
  /\ ~ sound clash_stream
  /\ vsconcat (s_keyFilter 0 clash_stream) = Ok (VS "ab"%string)
  /\ ~ agree (vsconcat (s_keyFilter 0 clash_stream)) (res_bind (vsconcat clash_stream) (v_getKey 0)).
Proof.
  split; [reflexivity|]. split; [|split; [reflexivity|]].
  - intros [(e & [H|[H|[]]])|(v & H)]; discriminate.
  - vm_compute. auto.
Qed.

(* non-vacuity with field mappings over nested maps (MapFields from a field that holds a map,
   ToField of a whole map, FromField of a nested map) *)
Lemma wfn_prog_in_domain :
  sprog_wf wfn_prog = true
  /\ dom_ok (compile_sprog wfn_prog) (VS "ab"%string) = true
  /\ g_invoke (compile_sprog wfn_prog) (VS "ab"%string)
     = Ok (VS "n5{ak=n4{ah=n3{af/;af.ac=n1<ab;af.ad=ab>;ag/;ag.ai=n2<ab;ag.aj=ab>;};};}"%string)
  /\ vsconcatR (g_transform seq_mrg (compile_sprog wfn_prog) (map Val [VS "a"%string; VS "b"%string]))
     = g_invoke (compile_sprog wfn_prog) (VS "ab"%string).
Proof. vm_compute. repeat split. Qed.

(* non-vacuity with a node of kind 4 that forwards the map chunks it receives under a key *)
Lemma wrap_prog_in_domain :
  sprog_wf wrap_prog = true
  /\ dom_ok (compile_sprog wrap_prog) (VS "ab"%string) = true
  /\ g_invoke (compile_sprog wrap_prog) (VS "ab"%string) = Ok (VS "n3{af/;af.ac=n1<ab;af.ad=ab>;}"%string)
  /\ vsconcatR (g_transform seq_mrg (compile_sprog wrap_prog) (map Val [VS "a"%string; VS "b"%string]))
     = g_invoke (compile_sprog wrap_prog) (VS "ab"%string).
Proof. vm_compute. repeat split. Qed.
