(* Proofs/StreamSem.v — end-to-end meaning of a reader tree (Model/Stream.v, property C08):
   what any reader has delivered is an order-preserving interleaving of prefixes of its
   strands (the sequences accepted by the pipes it derives from, the arrays, mapped through
   the conversions on the way), computed by the function [strands] that the correspondence
   check evaluates; [Shuf] is the declarative counterpart of [is_interleaving_of]. *)
From Eino Require Import Base.Util Model.Stream Proofs.Stream Proofs.StreamRel Proofs.StreamWf Proofs.StreamClose Proofs.StreamLink.
From Coq Require Import Lia Permutation.

(* [Shuf full l strs]: l is obtained by repeatedly taking the head of one of the strands;
   if [full] every strand is exhausted at the end *)
Inductive Shuf (full : bool) : list item -> list (list item) -> Prop :=
| Sh_nil : forall strs, (full = true -> Forall (fun s => s = []) strs) -> Shuf full [] strs
| Sh_cons : forall x l strs k s,
    nth_error strs k = Some (x :: s) -> Shuf full l (upd strs k s) -> Shuf full (x :: l) strs.

Definition prefixL (a b : list item) : Prop := exists c, b = a ++ c.

Lemma upd_upd : forall A (l : list A) i a b, upd (upd l i a) i b = upd l i b.
Proof. induction l as [|x l IH]; intros [|i] a b; simpl; auto. f_equal. apply IH. Qed.

Lemma upd_comm : forall A (l : list A) i j a b, i <> j -> upd (upd l i a) j b = upd (upd l j b) i a.
Proof.
  induction l as [|x l IH]; intros [|i] [|j] a b H; simpl; auto; try congruence. f_equal. apply IH. congruence.
Qed.

Lemma upd_same_val : forall A (l : list A) i a, nth_error l i = Some a -> upd l i a = l.
Proof. induction l as [|x l IH]; intros [|i] a H; simpl in *; try discriminate; [congruence | f_equal; auto]. Qed.

Lemma Forall_nil_upd : forall (strs : list (list item)) k, Forall (fun s => s = []) strs -> Forall (fun s => s = []) (upd strs k []).
Proof. intros. apply Forall_upd; auto. Qed.

(* appending an item to a strand and to the output *)
Lemma Shuf_snoc : forall full l strs, Shuf full l strs ->
  forall k s x, nth_error strs k = Some s -> full = true ->
  Shuf full (l ++ [x]) (upd strs k (s ++ [x])).
Proof.
  intros full l strs H. induction H as [strs Hn | y l strs k0 s0 Hk0 H IH]; intros k s x Hk Hf.
  - (* every strand is empty *)
    assert (s = []). { specialize (Hn Hf). rewrite Forall_forall in Hn. apply Hn. eapply nth_error_In; eauto. }
    subst s. simpl. apply (Sh_cons full x [] _ k []).
    + apply nth_error_upd_eq. apply nth_error_Some. congruence.
    + rewrite upd_upd. apply Sh_nil. intros _. apply Forall_nil_upd. apply Hn. exact Hf.
  - simpl. destruct (Nat.eq_dec k0 k) as [->|Hne].
    + rewrite Hk in Hk0. inversion Hk0; subst s.
      apply (Sh_cons full y _ _ k (s0 ++ [x])).
      * rewrite nth_error_upd_eq by (apply nth_error_Some; congruence). reflexivity.
      * rewrite upd_upd. specialize (IH k s0 x). rewrite upd_upd in IH. apply IH; auto.
        apply nth_error_upd_eq. apply nth_error_Some. congruence.
    + apply (Sh_cons full y _ _ k0 s0).
      * rewrite nth_error_upd_neq by congruence. exact Hk0.
      * rewrite upd_comm by congruence. apply IH; auto. rewrite nth_error_upd_neq by exact Hne. exact Hk.
Qed.

Lemma Interleave_Shuf : forall l strs, Interleave l strs -> Shuf true l strs.
Proof.
  intros l strs H. induction H.
  - apply Sh_nil. auto.
  - apply Shuf_snoc; auto.
Qed.

Lemma prefixL_refl : forall a, prefixL a a.
Proof. intros a. exists []. rewrite app_nil_r. reflexivity. Qed.

Lemma Forall2_upd : forall A B (R : A -> B -> Prop) l l' i a b,
  Forall2 R l l' -> R a b -> Forall2 R (upd l i a) (upd l' i b).
Proof.
  intros A B R l l' i a b H. revert i. induction H; intros [|i] Hab; simpl; constructor; auto.
Qed.

Lemma Forall2_nth_l : forall A B (R : A -> B -> Prop) l l' i a,
  Forall2 R l l' -> nth_error l i = Some a -> exists b, nth_error l' i = Some b /\ R a b.
Proof.
  intros A B R l l' i a H. revert i. induction H; intros [|i] Hn; simpl in *; try discriminate.
  - inversion Hn; subst. eauto.
  - apply IHForall2. exact Hn.
Qed.

(* weaken: forget completeness, extend the strands *)
Lemma Shuf_weaken : forall full l strs, Shuf full l strs ->
  forall strs', Forall2 prefixL strs strs' -> Shuf false l strs'.
Proof.
  intros full l strs H. induction H as [strs Hn | y l strs k0 s0 Hk0 H IH]; intros strs' HF.
  - apply Sh_nil. intros; discriminate.
  - destruct (Forall2_nth_l _ _ _ _ _ _ _ HF Hk0) as (b & Hb & (c & Ec)). subst b.
    apply (Sh_cons false y l strs' k0 (s0 ++ c)); [exact Hb|].
    apply IH. apply Forall2_upd; auto. exists c. reflexivity.
Qed.

Lemma Forall2_prefixL_refl : forall l, Forall2 prefixL l l.
Proof. induction l; constructor; auto. apply prefixL_refl. Qed.

Lemma Shuf_false : forall full l strs, Shuf full l strs -> Shuf false l strs.
Proof. intros. eapply Shuf_weaken; eauto. apply Forall2_prefixL_refl. Qed.

(* prefix-closed *)
Lemma Shuf_prefix : forall l strs, Shuf false l strs -> forall l', prefixL l' l -> Shuf false l' strs.
Proof.
  intros l strs H. induction H as [strs Hn | y l strs k0 s0 Hk0 H IH]; intros l' (c & Ec).
  - destruct l'; [|discriminate]. apply Sh_nil. intros; discriminate.
  - destruct l' as [|z l'].
    + apply Sh_nil. intros; discriminate.
    + simpl in Ec. inversion Ec; subst. apply (Sh_cons false z l' strs k0 s0); auto. apply IH. exists c. reflexivity.
Qed.

(* one strand *)
Lemma Shuf_single_full : forall s, Shuf true s [s].
Proof.
  induction s as [|x s IH].
  - apply Sh_nil. intros _. repeat constructor.
  - apply (Sh_cons true x s [x :: s] 0 s); auto.
Qed.

Lemma Shuf_single : forall l s, prefixL l s -> Shuf false l [s].
Proof. intros l s H. eapply Shuf_prefix; [apply Shuf_false with (full := true); apply Shuf_single_full | exact H]. Qed.

Lemma Shuf_single_inv : forall full l s, Shuf full l [s] -> prefixL l s /\ (full = true -> l = s).
Proof.
  intros full l s H. remember [s] as strs eqn:E. revert s E.
  induction H as [strs Hn | y l strs k0 s0 Hk0 H IH]; intros s E; subst.
  - split; [exists s; reflexivity|]. intros Hf. specialize (Hn Hf). inversion Hn; subst. auto.
  - destruct k0 as [|k0]; simpl in Hk0; [|destruct k0; discriminate]. inversion Hk0; subst.
    destruct (IH s0 eq_refl) as [(c & Ec) Hfull]. split.
    + exists c. simpl. rewrite Ec. reflexivity.
    + intros Hf. rewrite (Hfull Hf). reflexivity.
Qed.

(* item-wise conversion *)
Lemma map_upd : forall A B (f : A -> B) l i a, map f (upd l i a) = upd (map f l) i (f a).
Proof. induction l as [|x l IH]; intros [|i] a; simpl; auto. f_equal. apply IH. Qed.

Lemma Shuf_filter_map : forall full (f : item -> option item) l strs,
  Shuf full l strs -> Shuf full (filter_map f l) (map (filter_map f) strs).
Proof.
  intros full f l strs H. induction H as [strs Hn | y l strs k0 s0 Hk0 H IH].
  - simpl. apply Sh_nil. intros Hf. specialize (Hn Hf). rewrite Forall_forall in *. intros s Hs.
    apply in_map_iff in Hs. destruct Hs as (s' & <- & Hs'). rewrite (Hn _ Hs'). reflexivity.
  - simpl. rewrite map_upd in IH. destruct (f y) as [z|] eqn:Ey.
    + apply (Sh_cons full z _ _ k0 (filter_map f s0)); auto.
      rewrite (map_nth_error _ _ _ Hk0). simpl. rewrite Ey. reflexivity.
    + rewrite upd_same_val in IH; auto. rewrite (map_nth_error _ _ _ Hk0). simpl. rewrite Ey. reflexivity.
Qed.

(* interleaving of interleavings *)
Lemma concat_upd : forall (sss : list (list (list item))) k blk m v v',
  nth_error sss k = Some blk -> nth_error blk m = Some v ->
  nth_error (List.concat sss) (List.length (List.concat (firstn k sss)) + m) = Some v
  /\ List.concat (upd sss k (upd blk m v')) = upd (List.concat sss) (List.length (List.concat (firstn k sss)) + m) v'.
Proof.
  induction sss as [|b sss IH]; intros [|k] blk m v v' Hk Hm; simpl in *; try discriminate.
  - inversion Hk; subst b. split.
    + rewrite nth_error_app1 by (apply nth_error_Some; congruence). exact Hm.
    + clear Hk. revert m Hm. induction blk as [|y blk IHb]; intros [|m] Hm; simpl in *; try discriminate; auto.
      f_equal. apply IHb. exact Hm.
  - destruct (IH k blk m v v' Hk Hm) as [A B]. rewrite app_length. split.
    + rewrite nth_error_app2 by lia. replace (List.length b + List.length (List.concat (firstn k sss)) + m - List.length b)
        with (List.length (List.concat (firstn k sss)) + m) by lia. exact A.
    + rewrite B. rewrite <- Nat.add_assoc. clear. generalize (List.length (List.concat (firstn k sss)) + m) as j. generalize (List.concat sss) as l.
      induction b as [|y b IHb]; intros l j; simpl; auto. f_equal. apply IHb.
Qed.

Lemma Shuf_nil_inv : forall strs, Shuf true [] strs -> Forall (fun s => s = []) strs.
Proof. intros strs H. inversion H; subst. auto. Qed.

Lemma Shuf_concat : forall full l ls, Shuf full l ls ->
  forall sss, Forall2 (Shuf full) ls sss -> Shuf full l (List.concat sss).
Proof.
  intros full l ls H. induction H as [ls Hn | x l ls k s Hk H IH]; intros sss HF.
  - apply Sh_nil. intros Hf. subst full. specialize (Hn eq_refl).
    induction HF as [|a b ls sss Hab HF IHF]; simpl; [constructor|].
    inversion Hn; subst. apply Forall_app. split; auto. apply Shuf_nil_inv. exact Hab.
  - destruct (Forall2_nth_l _ _ _ _ _ _ _ HF Hk) as (blk & Hblk & Hsh).
    inversion Hsh as [|x0 l0 strs0 m u Hm Hrest]; subst.
    destruct (concat_upd sss k blk m (x :: u) u Hblk Hm) as [A B].
    apply (Sh_cons full x l _ _ u A). rewrite <- B. apply IH. apply Forall2_upd; auto.
Qed.

(* the boolean checker of the correspondence accepts what Shuf describes *)
Lemma item_eqb_refl : forall x, item_eqb x x = true.
Proof. intros [v|e]; simpl; apply N.eqb_refl. Qed.

Lemma forallb_nilb : forall strs : list (list item), Forall (fun s => s = []) strs -> forallb nilb strs = true.
Proof. intros strs H. induction H; simpl; auto. subst. simpl. exact IHForall. Qed.

Lemma Shuf_checker : forall full l strs, Shuf full l strs -> is_interleaving_of full l strs = true.
Proof.
  intros full l strs H. induction H as [strs Hn | x l strs k s Hk H IH].
  - simpl. destruct full; auto. apply forallb_nilb. auto.
  - cbn [is_interleaving_of].
    set (try := fix try (pre post : list (list item)) {struct post} : bool :=
         match post with
         | [] => false
         | s :: post' =>
             if (match s with
                 | y :: s' => if item_eqb x y
                              then is_interleaving_of full l (rev_append pre (s' :: post'))
                              else false
                 | [] => false
                 end)
             then true
             else try (s :: pre) post'
         end).
    assert (G : forall post pre k0 s0, nth_error post k0 = Some (x :: s0) ->
               is_interleaving_of full l (rev_append pre (upd post k0 s0)) = true -> try pre post = true).
    { induction post as [|a post IHp]; intros pre k0 s0 Hk0 Hr; [destruct k0; discriminate|].
      destruct k0 as [|k0]; simpl in Hk0.
      - inversion Hk0; subst a. simpl. rewrite item_eqb_refl. simpl in Hr. rewrite Hr. reflexivity.
      - simpl. destruct (match a with
                         | [] => false
                         | y :: s' => if item_eqb x y then is_interleaving_of full l (rev_append pre (s' :: post)) else false
                         end); auto.
        apply (IHp (a :: pre) k0 s0 Hk0). simpl. simpl in Hr. exact Hr. }
    apply (G strs [] k s Hk). simpl. exact IH.
Qed.

(* ------------------------------------------------------------------ the strands of a reader *)

Definition cur_w (G : state) : nat -> list item :=
  fun sid => match nth_error (streams (st_store G)) sid with Some s => s_sent s | None => [] end.

Definition of_stream (N : nat) (G : state) (w : nat -> list item) (sid : nat) : option (list (list item)) :=
  match find_fwd_to G sid with
  | Some F => strands N G w (f_src F)
  | None =>
    match nth_error (streams (st_store G)) sid with
    | Some s => if s_user s then Some [w sid] else Some [s_deliv s ++ s_buf s]
    | None => None
    end
  end.

Lemma strands_unfold : forall N G w t,
  strands (S N) G w t =
  match t with
  | RArr done rest => Some [map IVal (done ++ rest)]
  | RStr sid => of_stream N G w sid
  | RMul sts _ => opt_concat (map (of_stream N G w) sts)
  | RConv f src _ _ =>
      match strands N G w src with
      | Some l => Some (map (filter_map (conv_item f)) l)
      | None => None
      end
  | RChild p _ =>
      match nth_error (parents (st_store G)) p with
      | Some P => strands N G w (p_src P)
      | None => None
      end
  end.
Proof. intros. destruct t; reflexivity. Qed.

Lemma find_fwd_to_spec : forall G sid F, find_fwd_to G sid = Some F ->
  exists k, nth_error (st_fwds G) k = Some F /\ f_dst F = sid.
Proof.
  intros G sid F H. unfold find_fwd_to in H. apply find_some in H. destruct H as [Hin He].
  apply Nat.eqb_eq in He. apply In_nth_error in Hin. destruct Hin as (k & Hk). eauto.
Qed.

Lemma opt_concat_spec : forall A (l : list (option (list A))) r,
  opt_concat l = Some r -> exists ls, l = map Some ls /\ r = List.concat ls.
Proof.
  induction l as [|[a|] l IH]; intros r H; simpl in H.
  - inversion H; subst. exists []. auto.
  - destruct (opt_concat l) as [b|] eqn:E; [|discriminate]. inversion H; subst.
    destruct (IH b eq_refl) as (ls & E1 & E2). exists (a :: ls). simpl. rewrite E1, E2. auto.
  - discriminate.
Qed.

Lemma prefixL_firstn : forall k (l : list item), prefixL (firstn k l) l.
Proof. intros k l. exists (skipn k l). symmetry. apply firstn_skipn. Qed.

Theorem strands_sound : forall G, Inv G ->
  forall N t L strs, rd_ok t -> Link (st_store G) t L ->
    strands N G (cur_w G) t = Some strs -> Shuf false L strs.
Proof.
  intros G (HS & HW & Hp & HK & HL). pose proof HS as ((Hstr & Hpar) & Hhs & Hfs). pose proof HL as (L1 & L2 & L3).
  induction N as [|N IH]; intros t L strs Hrd HLk Hs; [discriminate|].
  rewrite strands_unfold in Hs.
  assert (Hstream : forall sid ss, of_stream N G (cur_w G) sid = Some ss -> Shuf false (sdeliv (st_store G) sid) ss).
  { intros sid ss Ho. unfold of_stream in Ho. destruct (find_fwd_to G sid) as [F|] eqn:Ef.
    - destruct (find_fwd_to_spec _ _ _ Ef) as (k & Hk & Hd). subst sid.
      destruct HW as (_ & _ & _ & W4 & _). pose proof (Forall_nth_error _ _ _ _ _ W4 Hk) as (d & Hdn & _).
      pose proof (L3 _ _ _ Hk Hdn) as Hf.
      assert (Hx : exists dr, Link (st_store G) (f_src F) (s_sent d ++ dr)).
      { unfold finv in Hf. destruct (f_st F).
        - exists []. rewrite app_nil_r. apply Hf.
        - eexists. apply Hf.
        - destruct Hf as (dr & A & _). eauto.
        - destruct Hf as (dr & A & _). eauto. }
      destruct Hx as (dr & Hlk).
      assert (Hrs : rd_ok (f_src F)) by exact (Forall_nth_error _ _ _ _ _ Hfs Hk).
      pose proof (IH _ _ _ Hrs Hlk Ho) as Hsh.
      eapply Shuf_prefix; [exact Hsh|]. unfold sdeliv. rewrite Hdn.
      pose proof (Forall_nth_error _ _ _ _ _ Hstr Hdn) as [Hsent _]. rewrite Hsent. rewrite <- app_assoc. eexists. reflexivity.
    - unfold sdeliv. destruct (nth_error (streams (st_store G)) sid) as [s|] eqn:Es; [|discriminate].
      pose proof (Forall_nth_error _ _ _ _ _ Hstr Es) as [Hsent _].
      destruct (s_user s); inversion Ho; subst; apply Shuf_single.
      + unfold cur_w. rewrite Es. rewrite Hsent. eexists. reflexivity.
      + eexists. reflexivity. }
  destruct t as [d rest | sid | sts ch | f src cin cout | p i].
  - inversion Hs; subst. simpl in HLk. subst L. apply Shuf_single. exists (map IVal rest). rewrite map_app. reflexivity.
  - simpl in HLk. subst L. apply Hstream. exact Hs.
  - simpl in HLk. destruct (opt_concat_spec _ _ _ Hs) as (ls & E1 & E2). subst strs.
    apply Shuf_concat with (ls := map (sdeliv (st_store G)) sts).
    + apply Shuf_false with (full := true). apply Interleave_Shuf. exact HLk.
    + clear - E1 Hstream. revert ls E1. induction sts as [|s sts IHs]; intros [|a ls] E1; simpl in *; try discriminate; constructor.
      * apply Hstream. inversion E1. auto.
      * apply IHs. inversion E1. auto.
  - simpl in HLk. destruct HLk as [-> HLs]. destruct Hrd as [Hc Hrs].
    destruct (strands N G (cur_w G) src) as [l|] eqn:E; [|discriminate]. inversion Hs; subst.
    apply Shuf_filter_map. eapply IH; eauto.
  - simpl in HLk. subst L. destruct (nth_error (parents (st_store G)) p) as [P|] eqn:EP; [|discriminate].
    pose proof (Forall_nth_error _ _ _ _ _ Hpar EP) as (Pl & _ & Pc & _ & Prd).
    pose proof (IH _ _ _ Prd (L2 _ _ EP) Hs) as Hsh.
    eapply Shuf_prefix; [exact Hsh|]. unfold cgot. rewrite EP.
    destruct (nth_error (p_got P) i) as [g|] eqn:Eg.
    + rewrite (nth_error_nth _ _ _ Eg).
      destruct (nth_error (p_cur P) i) as [oc|] eqn:Ec.
      * destruct (Pc i oc g Ec Eg) as ((k & ->) & _). apply prefixL_firstn.
      * apply nth_error_None in Ec. assert (i < List.length (p_got P)) by (apply nth_error_Some; congruence). lia.
    + rewrite nth_overflow by (apply nth_error_None; exact Eg). exists (p_items P). reflexivity.
Qed.

(* ------------------------------------------------------------------ statements over runs *)

Definition legal_run (fuel : nat) (ops : list op) : Prop := run_pre op_legal fuel init_state ops.

Lemma run_legal_Inv : forall fuel ops bs G,
  run fuel init_state ops = (bs, G) -> legal_run fuel ops -> Inv G.
Proof. intros. eapply run_Inv; eauto. apply init_Inv. Qed.

Lemma run_tree_delivery : forall fuel ops bs G,
  run fuel init_state ops = (bs, G) -> legal_run fuel ops ->
  forall h H, nth_error (st_handles G) h = Some H -> h_live H = true ->
  forall N strs, strands N G (cur_w G) (h_rd H) = Some strs ->
    Shuf false (h_got H) strs /\ is_interleaving_of false (h_got H) strs = true.
Proof.
  intros fuel ops bs G Hrun Hleg h H Hn Hlv N strs Hs.
  pose proof (run_legal_Inv _ _ _ _ Hrun Hleg) as HI.
  assert (Hsh : Shuf false (h_got H) strs).
  { eapply strands_sound; eauto.
    - destruct HI as ((_ & Hh & _) & _). exact (Forall_nth_error _ _ _ _ _ Hh Hn).
    - destruct HI as (_ & _ & _ & _ & (L1 & _)). eapply L1; eauto. }
  split; auto. apply Shuf_checker. exact Hsh.
Qed.

(* a reader that is a pipe's own reader *)
Lemma run_pipe_reader_fifo : forall fuel ops bs G,
  run fuel init_state ops = (bs, G) -> legal_run fuel ops ->
  forall h H sid s, nth_error (st_handles G) h = Some H -> h_live H = true -> h_rd H = RStr sid ->
    nth_error (streams (st_store G)) sid = Some s ->
    s_sent s = h_got H ++ s_buf s.
Proof.
  intros fuel ops bs G Hrun Hleg h H sid s Hn Hlv Hrd Hs.
  pose proof (run_legal_Inv _ _ _ _ Hrun Hleg) as (((Hst & _) & _) & _ & _ & _ & (L1 & _)).
  pose proof (L1 _ _ Hn Hlv) as HL. rewrite Hrd in HL. simpl in HL. unfold sdeliv in HL. rewrite Hs in HL.
  rewrite HL. apply (Forall_nth_error _ _ _ _ _ Hst Hs).
Qed.

(* a copy: the shared list is exactly what the source reader has delivered, the child holds a prefix of it *)
Lemma run_copy_child_link : forall fuel ops bs G,
  run fuel init_state ops = (bs, G) -> legal_run fuel ops ->
  forall h H p i P, nth_error (st_handles G) h = Some H -> h_live H = true -> h_rd H = RChild p i ->
    nth_error (parents (st_store G)) p = Some P ->
    Link (st_store G) (p_src P) (p_items P)
    /\ (exists k, h_got H = firstn k (p_items P)).
Proof.
  intros fuel ops bs G Hrun Hleg h H p i P Hn Hlv Hrd HP.
  pose proof (run_legal_Inv _ _ _ _ Hrun Hleg) as (((_ & Hpar) & _) & _ & _ & _ & (L1 & L2 & _)).
  split; [eapply L2; eauto|].
  pose proof (L1 _ _ Hn Hlv) as HL. rewrite Hrd in HL. simpl in HL. unfold cgot in HL. rewrite HP in HL.
  pose proof (Forall_nth_error _ _ _ _ _ Hpar HP) as (Pl & _ & Pc & _).
  destruct (nth_error (p_got P) i) as [g|] eqn:Eg.
  - rewrite (nth_error_nth _ _ _ Eg) in HL. subst g.
    destruct (nth_error (p_cur P) i) as [oc|] eqn:Ec.
    + destruct (Pc i oc _ Ec Eg) as (Hk & _). exact Hk.
    + apply nth_error_None in Ec. assert (i < List.length (p_got P)) by (apply nth_error_Some; congruence). lia.
  - rewrite nth_overflow in HL by (apply nth_error_None; exact Eg). exists 0. rewrite HL. reflexivity.
Qed.

(* ------------------------------------------------------------------ deciding legality (for examples) *)

Definition handle_freshb (G : state) (h : nat) : bool :=
  match nth_error (st_handles G) h with
  | Some H => negb (h_closed H) && nilb (h_got H)
  | None => true
  end.
Definition handle_unclosedb (G : state) (h : nat) : bool :=
  match nth_error (st_handles G) h with Some H => negb (h_closed H) | None => true end.

Definition op_legalb (G : state) (o : op) : bool :=
  match o with
  | OCopy h n => if Nat.leb 2 n then handle_freshb G h else true
  | OConv h _ => handle_freshb G h
  | OMerge hs => if Nat.leb 2 (List.length hs) then forallb (handle_freshb G) hs else true
  | ORecv h _ => handle_unclosedb G h
  | _ => true
  end.

Fixpoint run_legalb (fuel : nat) (G : state) (ops : list op) : bool :=
  match ops with
  | [] => true
  | o :: r => op_legalb G o && run_legalb fuel (snd (do_op fuel G o)) r
  end.

Lemma handle_freshb_sound : forall G h, handle_freshb G h = true -> handle_fresh G h.
Proof.
  intros G h H H0 E. unfold handle_freshb in H. rewrite E in H. apply andb_prop in H. destruct H as [A B].
  split; [destruct (h_closed H0); auto; discriminate | destruct (h_got H0); auto; discriminate].
Qed.

Lemma op_legalb_sound : forall G o, op_legalb G o = true -> op_legal G o.
Proof.
  intros G [cap | xs | h n | hs | h f | sid x | sid | h ch | h | k ch] H; unfold op_legalb, op_legal in *; auto.
  - intros Hn. apply Nat.leb_le in Hn. rewrite Hn in H. apply handle_freshb_sound. exact H.
  - intros Hn. apply Nat.leb_le in Hn. rewrite Hn in H. apply Forall_forall. intros h Hh.
    apply handle_freshb_sound. rewrite forallb_forall in H. apply H. exact Hh.
  - apply handle_freshb_sound. exact H.
  - intros H0 E. unfold handle_unclosedb in H. rewrite E in H. destruct (h_closed H0); auto; discriminate.
Qed.

Lemma run_legalb_sound : forall fuel ops G, run_legalb fuel G ops = true -> run_pre op_legal fuel G ops.
Proof.
  intros fuel. induction ops as [|o r IH]; intros G H; simpl in *; auto.
  apply andb_prop in H. destruct H as [A B]. split; [apply op_legalb_sound; exact A | apply IH; exact B].
Qed.
