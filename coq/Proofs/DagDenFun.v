(* Proofs/DagDenFun.v — C02: the run loop of Model/Graph.v implements the executable denotation of
   Model/DagSpec.v.

   Part A (table level): if (cs, Rv) is a run table satisfying the local rules DF (Proofs/DagDen.v: every state
   the loop reaches carries one) and [ord] is a topological order of the real nodes, then the table computed by
   [den_run ord] extends it: a node resolved in Rv with output out has status DRan out, a node skipped in cs has
   status DSkip. *)
From Eino Require Import Base.Util Model.Graph Model.DagSpec Proofs.DagChan Proofs.DagInv Proofs.DagLoop Proofs.DagTrig
     Proofs.DagVals Proofs.DagSkip Proofs.DagTrigLoop Proofs.DagDen.
From Coq Require Import Lia Permutation.
Open Scope N_scope.

Section DenTable.
  Variable V : Type.
  Variable ops : vops V.
  Variable g : graph.
  Variable nout : node -> V -> tres V.
  Variable x : V.

  Notation chans := (chans V).
  Notation skipped := (skipped V).
  Notation stat := (stat V).
  Notation den_node := (den_node V ops g nout).
  Notation den_trig := (den_trig V ops g).
  Notation den_input := (den_input V ops g).
  Notation den_vals := (den_vals V ops g).
  Notation den_data := (den_data V ops g).
  Notation den_routes_c := (den_routes_c V ops g).
  Notation den_from := (den_from V ops g nout).
  Notation den_run := (den_run V ops g nout x).
  Notation EF := (EF V ops g).
  Notation DF := (DF V ops g nout x).

  (* ---------- the table as a function ---------- *)
  Lemma stat_cons_eq (T : dtab V) t s : stat ((t, s) :: T) t = s.
  Proof. unfold stat. simpl. now rewrite N.eqb_refl. Qed.

  Lemma stat_cons_neq (T : dtab V) t s k : k <> t -> stat ((t, s) :: T) k = stat T k.
  Proof. intros Hne. unfold stat. simpl. apply N.eqb_neq in Hne. now rewrite Hne. Qed.

  Lemma den_from_stat_old ord : forall T k, ~ In k ord -> stat (den_from T ord) k = stat T k.
  Proof.
    induction ord as [|t ord IH]; intros T k Hn; simpl; [reflexivity|].
    rewrite IH by (intros H; apply Hn; now right).
    apply stat_cons_neq. intros ->. apply Hn. now left.
  Qed.

  Lemma den_from_app a b : forall T, den_from T (a ++ b) = den_from (den_from T a) b.
  Proof. induction a as [|t a IH]; intros T; simpl; [reflexivity|apply IH]. Qed.

  Lemma akeys_den_from ord : forall T k, In k (akeys (den_from T ord)) <-> In k ord \/ In k (akeys T).
  Proof.
    induction ord as [|t ord IH]; intros T k; simpl; [tauto|].
    rewrite IH. unfold akeys. simpl. tauto.
  Qed.

  (* ---------- den_vals through look-ups ---------- *)
  Lemma alookup_fold_vals (f : key -> option V) l p :
    alookup p (fold_right (fun q m => match f q with Some v => ainsert q v m | None => m end) [] l)
    = if memb p l then f p else None.
  Proof.
    induction l as [|a l IH]; simpl; [reflexivity|].
    destruct (N.eqb p a) eqn:E; simpl.
    - apply N.eqb_eq in E. subst a. destruct (f p) as [v|] eqn:Ef.
      + apply alookup_ainsert_eq.
      + rewrite IH. now destruct (memb p l).
    - destruct (f a) as [v|]; [|exact IH]. rewrite alookup_ainsert, E. exact IH.
  Qed.

  Lemma ksorted_fold_vals (f : key -> option V) l :
    ksorted (fold_right (fun q m => match f q with Some v => ainsert q v m | None => m end) [] l).
  Proof.
    induction l as [|a l IH]; simpl; [exact I|]. destruct (f a); [now apply ksorted_ainsert|exact IH].
  Qed.

  Lemma alookup_den_vals T t p :
    alookup p (den_vals T t) = if memb p (dpreds g t) then den_data T t p else None.
  Proof. unfold DagSpec.den_vals. apply alookup_fold_vals. Qed.

  Lemma ksorted_den_vals T t : ksorted (den_vals T t).
  Proof. unfold DagSpec.den_vals. apply ksorted_fold_vals. Qed.

  Lemma den_sel_eq n out : den_sel V ops n out = sel_of V ops n out.
  Proof. reflexivity. Qed.

  (* ---------- a run table ---------- *)
  Variable cs : chans.
  Variable Rv : list (key * V).
  Hypothesis HDF : DF cs Rv.

  (* T agrees with the run table on k *)
  Definition good (T : dtab V) (k : key) : Prop :=
    (forall out, In (k, out) Rv -> stat T k = DRan out) /\ (skipped cs k -> stat T k = DSkip).
  Definition GoodT (T : dtab V) : Prop := forall k, In k (akeys T) -> good T k.

  Lemma good_decided T q Rv' more :
    GoodT T -> In q (akeys T) -> Rv = Rv' ++ more -> resolved V Rv' q \/ skipped cs q ->
    (exists out, In (q, out) Rv' /\ stat T q = DRan out) \/ (skipped cs q /\ stat T q = DSkip).
  Proof.
    intros HT Hq E [Hr|Hs].
    - left. apply in_akeys in Hr. destruct Hr as (out & Hin). exists out. split; [assumption|].
      apply (HT q Hq). rewrite E. apply in_app_iff. now left.
    - right. split; [assumption|]. now apply (HT q Hq).
  Qed.

  (* the input den assembles for a node the run scheduled with the facts EF *)
  Lemma den_input_EF T t w Rv' more :
    GoodT T -> (forall q, gpred g t q -> In q (akeys T)) ->
    Rv = Rv' ++ more -> EF cs Rv' t w -> den_input T t = TRun w.
  Proof.
    intros HT Hpre E ((vals & v & Hks & Hvs & Hm & ->) & _ & Hall & _).
    unfold DagSpec.den_input.
    assert (Hdec : forall q, In q (dpreds g t) ->
              (exists out, In (q, out) Rv' /\ stat T q = DRan out) \/ (skipped cs q /\ stat T q = DSkip)).
    { intros q Hq. eapply good_decided; [exact HT|apply Hpre; now right|exact E|apply Hall; now right]. }
    replace (existsb (fun q => undecided V (stat T q)) (dpreds g t)) with false.
    2:{ symmetry. apply not_true_is_false. intros Hex. apply existsb_exists in Hex. destruct Hex as (q & Hq & Hu).
        destruct (Hdec q Hq) as [(out & _ & Es)|(_ & Es)]; rewrite Es in Hu; discriminate. }
    assert (Hvals : den_vals T t = vals).
    { apply ksorted_ext; [apply ksorted_den_vals|assumption|]. intros p. rewrite alookup_den_vals.
      destruct (memb p (dpreds g t)) eqn:Em.
      - apply memb_in in Em. destruct (alookup p vals) as [u|] eqn:Eu.
        + apply Hvs in Eu. destruct Eu as (_ & out & n & Hin & Hf & Hr & ->).
          unfold DagSpec.den_data.
          assert (Es : stat T p = DRan out).
          { apply (HT p (Hpre p (or_intror Em))). rewrite E. apply in_app_iff. now left. }
          rewrite Es, Hf.
          replace (memb t (n_dsucc n) || memb t (den_sel V ops n out))%bool with true; [reflexivity|].
          symmetry. apply orb_true_iff. rewrite !memb_in. exact Hr.
        + unfold DagSpec.den_data. destruct (Hdec p Em) as [(out & Hin & Es)|(_ & Es)]; rewrite Es; [|reflexivity].
          destruct (find_node g p) as [n|] eqn:Hf; [|reflexivity].
          destruct (memb t (n_dsucc n) || memb t (den_sel V ops n out))%bool eqn:Er; [|reflexivity].
          exfalso. apply orb_true_iff in Er. rewrite !memb_in in Er.
          assert (Hs : val_spec V ops g Rv' t p (edge_value V ops n t out)).
          { split; [assumption|]. exists out, n. auto. }
          apply Hvs in Hs. congruence.
      - destruct (alookup p vals) as [u|] eqn:Eu; [|reflexivity].
        apply Hvs in Eu. destruct Eu as (Hd & _). apply memb_false in Em. contradiction. }
    rewrite Hvals, Hm. reflexivity.
  Qed.

  Lemma den_routes_c_true T t q out n :
    stat T q = DRan out -> find_node g q = Some n -> routes_c V ops n out t -> den_routes_c T t q = true.
  Proof.
    intros Es Hf Hr. unfold DagSpec.den_routes_c. rewrite Es, Hf. apply orb_true_iff. rewrite !memb_in. exact Hr.
  Qed.

  (* a node the run scheduled (facts EF) is triggered by den, with the same input *)
  Lemma den_trig_EF T t w Rv' more :
    GoodT T -> (forall q, gpred g t q -> In q (akeys T)) ->
    Rv = Rv' ++ more -> EF cs Rv' t w ->
    (cpreds g t = [] -> forall q, In q (dpreds g t) -> ~ skipped cs q) ->
    den_trig T t = TRun w.
  Proof.
    intros HT Hpre E HEF Hnsk.
    pose proof (den_input_EF T t w Rv' more HT Hpre E HEF) as Hin.
    destruct HEF as (_ & (q0 & Hq0) & Hall & Hrt).
    unfold DagSpec.den_trig. destruct (cpreds g t) as [|c0 cl] eqn:Ecp.
    - destruct (dpreds g t) as [|d0 dl] eqn:Edp.
      + unfold gpred in Hq0. rewrite Ecp, Edp in Hq0. destruct Hq0 as [[]|[]].
      + rewrite <- Edp in *.
        replace (existsb (fun q => is_skip V (stat T q)) (dpreds g t)) with false; [exact Hin|].
        symmetry. apply not_true_is_false. intros Hex. apply existsb_exists in Hex. destruct Hex as (q & Hq & Hs).
        destruct (good_decided T q Rv' more HT (Hpre q (or_intror Hq)) E (Hall q (or_intror Hq))) as [(out & _ & Es)|(Hsk & _)].
        * rewrite Es in Hs. discriminate.
        * exact (Hnsk eq_refl q Hq Hsk).
    - rewrite <- Ecp in *.
      replace (existsb (fun q => undecided V (stat T q)) (cpreds g t)) with false.
      2:{ symmetry. apply not_true_is_false. intros Hex. apply existsb_exists in Hex. destruct Hex as (q & Hq & Hu).
          destruct (good_decided T q Rv' more HT (Hpre q (or_introl Hq)) E (Hall q (or_introl Hq))) as [(out & _ & Es)|(_ & Es)];
            rewrite Es in Hu; discriminate. }
      assert (Hne : cpreds g t <> []) by (rewrite Ecp; discriminate).
      destruct (Hrt Hne) as (q & Hq & out & n & Hinq & Hf & Hr).
      replace (existsb (den_routes_c T t) (cpreds g t)) with true; [exact Hin|].
      symmetry. apply existsb_exists. exists q. split; [assumption|].
      eapply den_routes_c_true; [|exact Hf|exact Hr].
      apply (HT q (Hpre q (or_introl Hq))). rewrite E. apply in_app_iff. now left.
  Qed.

  (* a node the run skipped is skipped by den *)
  Lemma den_trig_skipped T t :
    GoodT T -> (forall q, gpred g t q -> In q (akeys T)) -> skipped cs t -> den_trig T t = TSkip.
  Proof.
    intros HT Hpre Hs. unfold DagSpec.den_trig. destruct (cpreds g t) as [|c0 cl] eqn:Ecp.
    - destruct (df_skd _ _ _ _ _ _ _ HDF t Hs Ecp) as [->|(q & Hq & Hqs)]; [reflexivity|].
      destruct (dpreds g t) as [|d0 dl] eqn:Edp; [reflexivity|]. rewrite <- Edp in *.
      replace (existsb (fun q => is_skip V (stat T q)) (dpreds g t)) with true; [reflexivity|].
      symmetry. apply existsb_exists. exists q. split; [assumption|].
      rewrite (proj2 (HT q (Hpre q (or_intror Hq))) Hqs). reflexivity.
    - rewrite <- Ecp in *. assert (Hne : cpreds g t <> []) by (rewrite Ecp; discriminate).
      pose proof (df_skc _ _ _ _ _ _ _ HDF t Hs Hne) as Hc.
      replace (existsb (fun q => undecided V (stat T q)) (cpreds g t)) with false.
      2:{ symmetry. apply not_true_is_false. intros Hex. apply existsb_exists in Hex. destruct Hex as (q & Hq & Hu).
          destruct (Hc q Hq) as [Hqs|(out & n & Hin & _)].
          - rewrite (proj2 (HT q (Hpre q (or_introl Hq))) Hqs) in Hu. discriminate.
          - rewrite (proj1 (HT q (Hpre q (or_introl Hq))) out Hin) in Hu. discriminate. }
      replace (existsb (den_routes_c T t) (cpreds g t)) with false; [reflexivity|].
      symmetry. apply not_true_is_false. intros Hex. apply existsb_exists in Hex. destruct Hex as (q & Hq & Hr).
      unfold DagSpec.den_routes_c in Hr.
      destruct (Hc q Hq) as [Hqs|(out & n & Hin & Hf & Hskl)].
      + rewrite (proj2 (HT q (Hpre q (or_introl Hq))) Hqs) in Hr. discriminate.
      + rewrite (proj1 (HT q (Hpre q (or_introl Hq))) out Hin), Hf in Hr.
        destruct (df_eval _ _ _ _ _ _ _ HDF q out Hin) as (n' & sel & sk & Hf' & Hev). rewrite Hf in Hf'. injection Hf' as <-.
        destruct (sel_skl_of V ops n out sel sk Hev) as [Es Ek]. rewrite Ek in Hskl.
        apply orb_true_iff in Hr. rewrite !memb_in in Hr. destruct Hr as [Hr|Hr].
        * exact (eval_branches_skipped_csucc V ops n out sel sk t Hev Hskl Hr).
        * rewrite den_sel_eq, Es in Hr. exact (proj2 (eval_branches_skipped V ops n out sel sk t Hev Hskl) Hr).
  Qed.

  (* the status den gives a node whose predecessors are in the table *)
  Lemma den_node_good T t :
    GoodT T -> (forall q, gpred g t q -> In q (akeys T)) -> t <> kSTART ->
    (forall out, In (t, out) Rv -> den_node T t = DRan out) /\ (skipped cs t -> den_node T t = DSkip).
  Proof.
    intros HT Hpre Hne. split.
    - intros out Hin.
      destruct (df_io _ _ _ _ _ _ _ HDF t out Hin) as [[-> _]|(_ & n & w & Rv' & more & E & Hf & HEF & Ho)]; [congruence|].
      assert (Hnsk : cpreds g t = [] -> forall q, In q (dpreds g t) -> ~ skipped cs q).
      { intros Hcp q Hq. apply (df_ek _ _ _ _ _ _ _ HDF t q); try assumption. apply in_akeys. eauto. }
      unfold DagSpec.den_node. rewrite (den_trig_EF T t w Rv' more HT Hpre E HEF Hnsk), Hf, Ho.
      destruct (df_eval _ _ _ _ _ _ _ HDF t out Hin) as (n' & sel & sk & Hf' & Hev). rewrite Hf in Hf'. injection Hf' as <-.
      now rewrite Hev.
    - intros Hs. unfold DagSpec.den_node. now rewrite (den_trig_skipped T t HT Hpre Hs).
  Qed.

  Lemma GoodT_cons T t :
    GoodT T -> ~ In t (akeys T) -> (forall q, gpred g t q -> In q (akeys T)) -> t <> kSTART ->
    GoodT ((t, den_node T t) :: T).
  Proof.
    intros HT Hnt Hpre Hne k Hk.
    destruct (N.eq_dec k t) as [->|Hkt].
    - unfold good. rewrite stat_cons_eq. now apply den_node_good.
    - assert (Hk' : In k (akeys T)) by (unfold akeys in *; simpl in Hk; destruct Hk as [Hk|Hk]; [congruence|assumption]).
      unfold good. rewrite stat_cons_neq by assumption. exact (HT k Hk').
  Qed.

  Lemma GoodT_start : GoodT [(kSTART, DRan x)].
  Proof.
    intros k [<-|[]]. split.
    - intros out Hin. destruct (df_io _ _ _ _ _ _ _ HDF kSTART out Hin) as [[_ ->]|(Hne & _)]; [|congruence].
      apply stat_cons_eq.
    - intros Hs. destruct (df_start _ _ _ _ _ _ _ HDF Hs).
  Qed.

  Lemma topo_from_good ord : forall seen T,
    topo_from g seen ord = true ->
    (forall q, In q seen <-> In q (akeys T)) -> In kSTART seen ->
    GoodT T -> GoodT (den_from T ord).
  Proof.
    induction ord as [|t ord IH]; intros seen T Ht Hseen Hst HT; simpl; [exact HT|].
    simpl in Ht. apply andb_true_iff in Ht. destruct Ht as [Ht Hrest].
    apply andb_true_iff in Ht. destruct Ht as [Ht Hd]. apply andb_true_iff in Ht. destruct Ht as [Hn Hc].
    apply negb_true_iff, memb_false in Hn. rewrite forallb_forall in Hc, Hd.
    apply (IH (t :: seen)); [exact Hrest| |now right|].
    - intros q. unfold akeys. simpl. rewrite Hseen. unfold akeys. tauto.
    - apply GoodT_cons; [exact HT|now rewrite <- Hseen| |].
      + intros q [Hq|Hq]; apply Hseen; apply memb_in; [now apply Hc|now apply Hd].
      + intros ->. contradiction.
  Qed.

  Theorem den_run_good ord : topo_from g [kSTART] ord = true -> GoodT (den_run ord).
  Proof.
    intros Ht. unfold DagSpec.den_run. eapply topo_from_good; [exact Ht| |now left|exact GoodT_start].
    intros q. unfold akeys. simpl. tauto.
  Qed.

  (* every node the run resolved has the output den computes; every node the run skipped is skipped by den *)
  Theorem den_run_resolved ord k out :
    topo_from g [kSTART] ord = true -> In k (kSTART :: ord) -> In (k, out) Rv -> stat (den_run ord) k = DRan out.
  Proof.
    intros Ht Hk Hin. apply (den_run_good ord Ht); [|assumption].
    unfold DagSpec.den_run. apply akeys_den_from. destruct Hk as [<-|Hk]; [right; now left|now left].
  Qed.

  Theorem den_run_skipped ord k :
    topo_from g [kSTART] ord = true -> In k ord -> skipped cs k -> stat (den_run ord) k = DSkip.
  Proof.
    intros Ht Hk Hs. apply (den_run_good ord Ht); [|assumption].
    unfold DagSpec.den_run. apply akeys_den_from. now left.
  Qed.

  (* the value the run assembled for END *)
  Theorem den_end_EF ord v :
    topo_ok g ord = true -> EF cs Rv kEND v ->
    (cpreds g kEND = [] -> forall q, In q (dpreds g kEND) -> ~ skipped cs q) ->
    den_end V ops g nout x ord = TRun v.
  Proof.
    intros Ht HEF Hnsk. unfold topo_ok in Ht.
    apply andb_true_iff in Ht. destruct Ht as [Ht Hd]. apply andb_true_iff in Ht. destruct Ht as [Ht Hc].
    rewrite forallb_forall in Hc, Hd.
    unfold DagSpec.den_end. apply (den_trig_EF (den_run ord) kEND v Rv []); [now apply den_run_good| |now rewrite app_nil_r|assumption|assumption].
    intros q Hq. unfold DagSpec.den_run. apply akeys_den_from.
    assert (Hm : In q (kSTART :: ord)) by (destruct Hq as [Hq|Hq]; apply memb_in; [now apply Hc|now apply Hd]).
    destruct Hm as [<-|Hm]; [right; now left|now left].
  Qed.
  (* ---------- facts about the order ---------- *)
  Lemma topo_from_notin ord : forall seen k, topo_from g seen ord = true -> In k ord -> ~ In k seen.
  Proof.
    induction ord as [|t ord IH]; intros seen k Ht [].
    - subst t. simpl in Ht. rewrite !andb_true_iff in Ht. destruct Ht as (((Hn & _) & _) & _).
      now apply negb_true_iff, memb_false in Hn.
    - simpl in Ht. rewrite !andb_true_iff in Ht. destruct Ht as (_ & Hrest).
      intros Hs. apply (IH (t :: seen) k Hrest H). now right.
  Qed.

  Lemma topo_from_preds ord : forall seen t, topo_from g seen ord = true -> In t ord ->
    forall q, gpred g t q -> In q seen \/ In q ord.
  Proof.
    induction ord as [|a ord IH]; intros seen t Ht [] q Hq.
    - subst a. simpl in Ht. rewrite !andb_true_iff in Ht. destruct Ht as (((_ & Hc) & Hd) & _).
      rewrite forallb_forall in Hc, Hd. left. apply memb_in. destruct Hq as [Hq|Hq]; [now apply Hc|now apply Hd].
    - simpl in Ht. rewrite !andb_true_iff in Ht. destruct Ht as (_ & Hrest).
      destruct (IH (a :: seen) t Hrest H q Hq) as [[<-|Hs]|Ho]; [right; now left|now left|right; now right].
  Qed.

  (* the status of a node of the order is den_node over a table that holds all its predecessors and agrees
     with the run table *)
  Lemma topo_from_node ord : forall seen T,
    topo_from g seen ord = true -> (forall q, In q seen <-> In q (akeys T)) -> In kSTART seen -> GoodT T ->
    forall k, In k ord ->
    exists T', GoodT T' /\ (forall q, gpred g k q -> In q (akeys T')) /\ stat (den_from T ord) k = den_node T' k.
  Proof.
    induction ord as [|t ord IH]; intros seen T Ht Hseen Hst HT k []; pose proof Ht as Ht0;
      simpl in Ht; rewrite !andb_true_iff in Ht; destruct Ht as (((Hn & Hc) & Hd) & Hrest);
      apply negb_true_iff, memb_false in Hn; rewrite forallb_forall in Hc, Hd.
    - subst t. exists T. split; [exact HT|]. split.
      + intros q [Hq|Hq]; apply Hseen; apply memb_in; [now apply Hc|now apply Hd].
      + simpl. rewrite den_from_stat_old; [apply stat_cons_eq|].
        intros Hin. apply (topo_from_notin ord (k :: seen) k Hrest Hin). now left.
    - simpl. apply (IH (t :: seen)); [exact Hrest| |now right| |assumption].
      + intros q. unfold akeys. simpl. rewrite Hseen. unfold akeys. tauto.
      + apply GoodT_cons; [exact HT|now rewrite <- Hseen| |].
        * intros q [Hq|Hq]; apply Hseen; apply memb_in; [now apply Hc|now apply Hd].
        * intros ->. contradiction.
  Qed.

  (* a node the run executed on input w (facts EF) whose body fails on w: den reports that failure *)
  Theorem den_run_failed ord k n w es Rv' more :
    topo_from g [kSTART] ord = true -> In k ord ->
    Rv = Rv' ++ more -> EF cs Rv' k w ->
    (cpreds g k = [] -> forall q, In q (dpreds g k) -> resolved V Rv' q) ->
    find_node g k = Some n -> nout n w = TErr es ->
    stat (den_run ord) k = DFail es.
  Proof.
    intros Ht Hk E HEF Hres Hf Ho.
    destruct (topo_from_node ord [kSTART] [(kSTART, DRan x)] Ht) with (k := k) as (T' & HT' & Hpre & Est);
      [intros q; unfold akeys; simpl; tauto|now left|exact GoodT_start|assumption|].
    unfold DagSpec.den_run. rewrite Est. unfold DagSpec.den_node.
    rewrite (den_trig_EF T' k w Rv' more HT' Hpre E HEF), Hf, Ho; [reflexivity|].
    intros Hcp q Hq Hs. apply (df_notsk _ _ _ _ _ _ _ HDF q); [|exact Hs].
    specialize (Hres Hcp q Hq). unfold resolved in Hres. rewrite E. unfold akeys in *. rewrite map_app. apply in_app_iff. now left.
  Qed.

  (* ... and every node the run executed was triggered by den with that input *)
  Theorem den_run_executed ord k w Rv' more :
    topo_from g [kSTART] ord = true -> In k ord ->
    Rv = Rv' ++ more -> EF cs Rv' k w ->
    (cpreds g k = [] -> forall q, In q (dpreds g k) -> resolved V Rv' q) ->
    den_trig (den_run ord) k = TRun w.
  Proof.
    intros Ht Hk E HEF Hres.
    apply (den_trig_EF (den_run ord) k w Rv' more); [now apply den_run_good| |assumption|assumption|].
    - intros q Hq. unfold DagSpec.den_run. apply akeys_den_from.
      destruct (topo_from_preds ord [kSTART] k Ht Hk q Hq) as [[<-|[]]|Ho]; [right; now left|now left].
    - intros Hcp q Hq Hs. apply (df_notsk _ _ _ _ _ _ _ HDF q); [|exact Hs].
      specialize (Hres Hcp q Hq). unfold resolved in Hres. rewrite E. unfold akeys in *. rewrite map_app. apply in_app_iff. now left.
  Qed.
End DenTable.

(* ================= Part B: the run loop =================
   Every state the loop of runner.run reaches, under any schedule: a node resolved so far has the output the
   denotation computes for it, a node skipped so far is skipped by the denotation; a run that finishes returns
   the value the denotation assembles for END. *)
Section DenLoop.
  Variable V : Type.
  Variable St : Type.
  Variable ops : vops V.
  Variable g : graph.
  Hypothesis Hdag : g_mode g = Dag.
  Hypothesis Hnk : NoDup (map n_key (g_nodes g)).
  Hypothesis Hcd : api_built g.
  Variable nout : node -> V -> tres V.
  Variable x : V.
  Variable exec : St -> path -> V -> res V * St.
  Variable sub : nat -> path -> V -> St -> outcome V * St.
  Variable sched : nat -> list key -> nat.
  Variable p : path.
  Hypothesis Hsub : forall i k v s, Forall (fun e : logentry V => fst e <> p) (outcome_log V (fst (sub i (p ++ [k]) v s))).
  Hypothesis Hpure : forall n v s, fst (fst (run_task V St ops exec sub p n v s)) = nout n v.

  Notation reach := (reach V St ops g exec sub sched p).
  Notation step := (step V St ops exec sub sched p g).
  Notation den_run := (den_run V ops g nout x).

  Theorem reach_den_resolved s0 ls Rv ord k out :
    reach x s0 ls Rv -> topo_from g [kSTART] ord = true -> In k (kSTART :: ord) ->
    In (k, out) Rv -> stat V (den_run ord) k = DRan out.
  Proof.
    intros Hr Ht Hk Hin.
    eapply den_run_resolved; [|exact Ht|exact Hk|exact Hin].
    eapply (reach_DF V St ops g Hdag Hnk Hcd nout x exec sub sched p Hsub Hpure); eassumption.
  Qed.

  Theorem reach_den_skipped s0 ls Rv ord k :
    reach x s0 ls Rv -> topo_from g [kSTART] ord = true -> In k ord ->
    skipped V (ls_chans V St ls) k -> stat V (den_run ord) k = DSkip.
  Proof.
    intros Hr Ht Hk Hs.
    eapply den_run_skipped; [|exact Ht|exact Hk|exact Hs].
    eapply (reach_DF V St ops g Hdag Hnk Hcd nout x exec sub sched p Hsub Hpure); eassumption.
  Qed.

  (* a scheduled node without control predecessors has no skipped data predecessor *)
  Lemma scheduled_no_skipped_dpred ls Rv k :
    LT V St ops g p ls Rv -> scheduled V St ls k -> cpreds g k = [] ->
    forall q, In q (dpreds g k) -> ~ skipped V (ls_chans V St ls) q.
  Proof.
    intros HLT Hsch Hcp q Hq Hs.
    destruct (proj1 (runs_iff_triggered_LT V St ops g p ls Rv k HLT) (or_intror Hsch)) as (c & E & S & _).
    destruct HLT as (X & G & _ & _ & _ & _ & _ & _ & _ & HK).
    pose proof (HK k c q E Hcp Hq Hs (fun F => F)) as S'. congruence.
  Qed.

  Theorem done_den s0 ls Rv v lg s' ord :
    (exists q, gpred g kEND q) -> topo_ok g ord = true ->
    reach x s0 ls Rv -> step ls = Finish (Done v lg) s' ->
    den_result V ops g nout x ord = Some v.
  Proof.
    intros Hend Ht Hr Hstep.
    destruct (done_LD V St ops g Hdag Hnk Hcd nout x exec sub sched p Hsub Hpure s0 ls Rv v lg s' Hend Hr Hstep)
      as (ls' & HLD & Hv).
    pose proof (LD_DF V St ops g nout x p ls' _ HLD) as HDF.
    destruct HLD as (HLT & _).
    destruct (scheduled_EF V St ops g p ls' _ kEND v HLT Hv) as [_ HEF].
    assert (Hsch : scheduled V St ls' kEND) by (unfold scheduled; eapply alookup_some_key; eassumption).
    unfold den_result.
    rewrite (den_end_EF V ops g nout x (ls_chans V St ls') _ HDF ord v Ht HEF); [reflexivity|].
    intros Hcp q Hq. eapply scheduled_no_skipped_dpred; eassumption.
  Qed.

  (* the state after the first calculateNextTasks (START resolved), also when END is ready at once *)
  Lemma init_LT_gen cs0 cs1 ready s :
    init_chans V g = Ok cs0 -> calc_next V ops g cs0 [(kSTART, x)] = Ok (cs1, ready) ->
    (alookup kEND ready = None \/ exists q, gpred g kEND q) ->
    LT V St ops g p (init_state V St p cs1 ready s) [(kSTART, x)].
  Proof.
    intros Hi Hc Hor.
    destruct (init_chans_inv V g Hdag cs0 Hi) as [HI0 Ho0].
    assert (Hpre0 : forall k, In k (akeys [(kSTART, x)]) -> In k [kSTART] /\ npred g [kSTART] k).
    { intros k [<-|[]]. split; [now left|]. intros t [<-|[]] Hne. congruence. }
    assert (Hnd : NoDup [kSTART]) by (constructor; [intros []|constructor]).
    destruct (calc_next_inv V ops g Hdag _ _ _ _ _ _ HI0 Ho0 Hnd Hpre0 Hc) as (HI' & Ho' & Hnd' & _).
    specialize (HI' Hor). simpl in HI'.
    assert (HL : LInvR V St g p (init_state V St p cs1 ready s) [kSTART] [] ([kSTART] ++ akeys ready)).
    { unfold LInvR. cbn [init_state ls_chans ls_next ls_running ls_log].
      split.
      { eapply Inv_grow_R; [| |exact HI'].
        - intros z [<-|[]]; now left.
        - intros z [<-|[]]; now left. }
      split; [assumption|]. split; [assumption|].
      split; [reflexivity|]. split; [|split; [|split]].
      - simpl. simpl in Hnd'. now inversion Hnd'.
      - intros z [].
      - simpl. intros k Hk [<-|[]]. simpl in Hnd'. inversion Hnd'. contradiction.
      - apply own_paths_marker. }
    pose proof (init_chans_ET V ops g Hdag Hnk cs0 Hi) as HE0.
    assert (Hpre : forall k, In k (akeys [(kSTART, x)]) -> In k [kSTART] /\ npred g [kSTART] k /\ ~ In k (akeys (@nil (key * V)))).
    { intros k Hk. destruct (Hpre0 k Hk) as [A B]. split; [assumption|]. split; [assumption|intros []]. }
    assert (Hnd1 : NoDup (akeys [(kSTART, x)])) by (constructor; [intros []|constructor]).
    destruct (calc_next_ET V ops g Hdag Hnk Hcd cs0 [kSTART] [] [kSTART] [(kSTART, x)] cs1 ready
                HI0 Ho0 Hnd HE0 (GW_init V ops g) Hnd1 Hpre Hc) as (HE1 & HG1 & HNR).
    destruct (calc_next_EV V ops g Hdag Hnk cs0 [kSTART] [] [kSTART] [(kSTART, x)] cs1 ready
                HI0 Ho0 Hnd HE0 (GW_init V ops g) (init_chans_EV V ops g Hdag cs0 Hi) Hnd1 Hpre Hc) as (HV1 & Hin1).
    exists [], ([kSTART] ++ akeys ready). split; [exact HL|]. split; [exact HE1|]. split; [exact HG1|].
    assert (HS1 : ES V ops g cs1 [(kSTART, x)]).
    { eapply (calc_next_ES V ops g Hdag cs0 [kSTART] [kSTART] [(kSTART, x)] [(kSTART, x)]); [exact HI0| |apply incl_refl| |exact Hc].
      - eapply ES_mono_L; [|exact (init_chans_ES V ops g Hdag cs0 Hi)]. intros z [].
      - exact Hpre0. }
    assert (HK1 : EK V g cs1 []).
    { eapply (calc_next_EK V ops g Hdag Hnk cs0 [kSTART] [kSTART] [(kSTART, x)]); [exact HI0|exact (init_chans_EK V g Hdag Hnk cs0 Hi)|exact Hpre0|exact Hc]. }
    split; [|split; [exact HV1|split; [exact Hin1|split; [exact HS1|exact HK1]]]].
    intros t c E HnG. apply (HNR t c E). intros Hin. apply HnG. apply in_app_iff. now right.
  Qed.

  Lemma init_LD_gen cs0 cs1 ready s :
    init_chans V g = Ok cs0 -> calc_next V ops g cs0 [(kSTART, x)] = Ok (cs1, ready) ->
    (alookup kEND ready = None \/ exists q, gpred g kEND q) ->
    LD V St ops g nout x p (init_state V St p cs1 ready s) [(kSTART, x)].
  Proof.
    intros Hi Hc Hor. split; [eapply init_LT_gen; eassumption|].
    cbn [init_state ls_chans ls_running]. split.
    - intros k out [[= <- <-]|[]]. now left.
    - intros k out [].
  Qed.

  (* runner.run as a whole: a run that finishes returns the value the denotation assembles for END *)
  Theorem run_flat_done_den s v lg s' ord :
    (exists q, gpred g kEND q) -> topo_ok g ord = true ->
    run_flat V St ops exec sub sched p g x s = (Done v lg, s') ->
    den_result V ops g nout x ord = Some v.
  Proof.
    intros Hend Ht Erun. pose proof Erun as Erun0. unfold run_flat in Erun.
    destruct (init_chans V g) as [cs0|e|] eqn:Ei; [|discriminate..].
    destruct (calc_next V ops g cs0 [(kSTART, x)]) as [[cs1 ready]|e|] eqn:Ec; [|discriminate..].
    destruct (alookup kEND ready) as [v0|] eqn:Eend.
    - injection Erun as <- _ _.
      pose proof (init_LD_gen cs0 cs1 ready s Ei Ec (or_intror Hend)) as HLD.
      pose proof (LD_DF V St ops g nout x p _ _ HLD) as HDF.
      destruct HLD as (HLT & _).
      assert (Hv : alookup kEND (ls_next V St (init_state V St p cs1 ready s)) = Some v0) by exact Eend.
      destruct (scheduled_EF V St ops g p _ _ kEND v0 HLT Hv) as [_ HEF].
      assert (Hsch : scheduled V St (init_state V St p cs1 ready s) kEND) by (unfold scheduled; eapply alookup_some_key; eassumption).
      unfold den_result.
      rewrite (den_end_EF V ops g nout x _ _ HDF ord v0 Ht HEF); [reflexivity|].
      intros Hcp q Hq. eapply scheduled_no_skipped_dpred; eassumption.
    - destruct (run_flat_reach V St ops g exec sub sched p x s cs0 cs1 ready _ _ Ei Ec Eend Erun0)
        as (ls & Rv & Hr & [Hstep|[Hf _]]); [|discriminate].
      eapply done_den; eassumption.
  Qed.

  (* ================= Part C: every execution, including the failing ones =================
     EXE: every execution recorded in the log of the instance was scheduled with the facts EF (input = merge of
     the routed data predecessors, every predecessor decided, a control predecessor routed);
     RUNE: every task that has failed and is not yet collected was executed on an input on which its body fails. *)
  Definition EXE (cs : chans V) (Rv : list (key * V)) (lg : log V) : Prop :=
    forall t w, In (p ++ [t], w) (own_events V p lg) ->
      t <> kSTART /\
      exists Rv' more, Rv = Rv' ++ more /\ EF V ops g cs Rv' t w
                       /\ (cpreds g t = [] -> forall q, In q (dpreds g t) -> resolved V Rv' q).

  Definition RUNE (lg : log V) (running : list (key * tres V)) : Prop :=
    forall k es, In (k, TErr es) running ->
      (exists n w, find_node g k = Some n /\ In (p ++ [k], w) (own_events V p lg) /\ nout n w = TErr es)
      \/ (find_node g k = None /\ es = [mkerr eUnknownNode]).

  Definition LX (ls : loopstate V St) (Rv : list (key * V)) : Prop :=
    LD V St ops g nout x p ls Rv /\ EXE (ls_chans V St ls) Rv (ls_log V St ls) /\ RUNE (ls_log V St ls) (ls_running V St ls).

  Lemma LX_submitted ls Rv results sublog s' :
    LX ls Rv -> submit V St ops exec sub p g (ls_next V St ls) (ls_st V St ls) = (results, sublog, s') ->
    EXE (ls_chans V St ls) Rv (ls_log V St ls ++ next_entry V St p ls ++ sublog)
    /\ RUNE (ls_log V St ls ++ next_entry V St p ls ++ sublog) (ls_running V St ls ++ results).
  Proof.
    intros ((HLT & HIO & HRU) & HEX & HRE) Es.
    destruct (submit_spec V St ops g exec sub p _ Hsub _ _ _ _ _ Es) as [_ Hsl].
    assert (Hev : own_events V p (ls_log V St ls ++ next_entry V St p ls ++ sublog)
                  = own_events V p (ls_log V St ls) ++ map (fun kv : key * V => (p ++ [fst kv], snd kv)) (ls_next V St ls)).
    { now rewrite !own_events_app, (own_events_foreign V p sublog Hsl), app_nil_r, own_events_next. }
    assert (Hnd : NoDup (akeys (ls_next V St ls))).
    { pose proof HLT as (X & G & HL & _). destruct HL as (_ & _ & _ & _ & Hnd & _). now apply NoDup_app_inv in Hnd. }
    split.
    - intros t w Hin. rewrite Hev in Hin. apply in_app_iff in Hin. destruct Hin as [Hin|Hin]; [now apply HEX|].
      apply in_map_iff in Hin. destruct Hin as ([k v] & E & Hkv). simpl in E.
      injection E as E1 E2. apply app_inv_head in E1. injection E1 as <-. subst v.
      pose proof (nodup_in_alookup (ls_next V St ls) k w Hnd Hkv) as Hlk.
      destruct (scheduled_EF V St ops g p ls Rv k w HLT Hlk) as [Hne HEF]. split; [exact Hne|].
      exists Rv, []. split; [now rewrite app_nil_r|]. split; [exact HEF|].
      intros Hcp q Hq. destruct HEF as (_ & _ & Hall & _).
      destruct (Hall q (or_intror Hq)) as [Hr|Hs]; [exact Hr|]. exfalso.
      eapply (scheduled_no_skipped_dpred ls Rv k HLT); [|exact Hcp|exact Hq|exact Hs].
      unfold scheduled. eapply alookup_some_key; eassumption.
    - intros k es Hin. apply in_app_iff in Hin. destruct Hin as [Hin|Hin].
      + destruct (HRE k es Hin) as [(n & w & Hf & Hw & Ho)|?]; [left|now right].
        exists n, w. split; [assumption|]. split; [|assumption]. rewrite Hev. apply in_app_iff. now left.
      + destruct (submit_results V St ops g exec sub p _ _ _ _ _ Es k (TErr es) Hin) as (v & Hv & [(n & s0 & Hf & Hr)|(Hf & Hr)]).
        * left. exists n, v. split; [assumption|]. split.
          -- rewrite Hev. apply in_app_iff. right. apply in_map_iff. exists (k, v). auto.
          -- rewrite Hpure in Hr. now symmetry.
        * right. split; [assumption|]. now injection Hr.
  Qed.

  Lemma LX_step ls Rv results sublog s' completed running' cs' ready :
    LX ls Rv ->
    submit V St ops exec sub p g (ls_next V St ls) (ls_st V St ls) = (results, sublog, s') ->
    wait_tasks V sched g (ls_step V St ls) (ls_running V St ls ++ results) = (completed, running') ->
    calc_next V ops g (ls_chans V St ls) (task_outputs V completed) = Ok (cs', ready) ->
    (alookup kEND ready = None \/ exists q, gpred g kEND q) ->
    LX {| ls_step := S (ls_step V St ls); ls_chans := cs'; ls_next := ready; ls_running := running';
          ls_st := s'; ls_log := ls_log V St ls ++ next_entry V St p ls ++ sublog |}
       (Rv ++ task_outputs V completed).
  Proof.
    intros HLX Es Ew Ecn Hor.
    destruct (LX_submitted ls Rv results sublog s' HLX Es) as [HEX' HRE'].
    destruct HLX as (HLD & _ & _).
    pose proof (LD_step V St ops g Hdag Hnk Hcd nout x exec sub sched p Hsub Hpure ls Rv _ _ _ _ _ _ _ HLD Es Ew Ecn Hor) as HLD'.
    pose proof (wait_tasks_perm V g sched _ _ _ _ Ew) as Hwp.
    assert (Hm : forall q, skipped V (ls_chans V St ls) q -> skipped V cs' q).
    { destruct HLD as (HLT & _). pose proof HLT as (X & G & HL & _). pose proof HL as (HI & Ho & Hnd & _).
      destruct (step_completed_pre V St ops g exec sub sched p Hsub ls (akeys Rv) X G _ _ _ _ _ HL Es Ew) as (_ & Hpre).
      assert (Hpre' : forall k, In k (akeys (task_outputs V completed)) -> In k G /\ npred g G k).
      { intros k Hk. destruct (Hpre k Hk) as (A & B & _). auto. }
      destruct (calc_next_inv V ops g Hdag _ _ _ _ _ _ HI Ho Hnd Hpre' Ecn) as (_ & _ & _ & [_ Hmono]). exact Hmono. }
    split; [exact HLD'|]. cbn [ls_chans ls_log ls_running]. split.
    - intros t w Hin. destruct (HEX' t w Hin) as (Hne & Rv' & more & -> & HEF & Hres). split; [exact Hne|].
      exists Rv', (more ++ task_outputs V completed). split; [now rewrite app_assoc|].
      split; [eapply EF_mono; eassumption|exact Hres].
    - intros k es Hin. apply HRE'. eapply Permutation_in; [exact Hwp|]. apply in_app_iff. now right.
  Qed.

  Lemma reach_LX s0 ls Rv : reach x s0 ls Rv -> LX ls Rv.
  Proof.
    induction 1 as [cs0 cs1 ready Hi Hc Hend|ls Rv ls' Hr IH Hstep].
    - split; [eapply init_LD_gen; [eassumption..|now left]|]. cbn [init_state ls_chans ls_log ls_running]. split.
      + intros t w Hin. exfalso. unfold own_events, log_steps_at, run_marker in Hin. simpl in Hin.
        match type of Hin with context [list_eq_dec ?a ?b ?c] => destruct (list_eq_dec a b c) end; simpl in Hin; exact Hin.
      + intros k es [].
    - destruct (step_continue_unfold V St ops g Hdag exec sub sched p ls ls' Hstep)
        as (results & sublog & s' & completed & running' & cs' & ready & Es & Ew & Ecn & Eend & Eso & ->).
      rewrite Eso. eapply LX_step; try eassumption. now left.
  Qed.

  (* every execution in the log of the instance: the denotation triggers that node, with that input *)
  Theorem reach_den_executed s0 ls Rv ord t w :
    reach x s0 ls Rv -> topo_from g [kSTART] ord = true -> In t ord ->
    In (p ++ [t], w) (own_events V p (ls_log V St ls)) ->
    den_trig V ops g (den_run ord) t = TRun w.
  Proof.
    intros Hr Ht Hk Hin.
    destruct (reach_LX s0 ls Rv Hr) as (HLD & HEX & _).
    destruct (HEX t w Hin) as (_ & Rv' & more & E & HEF & Hres).
    eapply den_run_executed; [eapply LD_DF; exact HLD|exact Ht|exact Hk|exact E|exact HEF|exact Hres].
  Qed.

  (* one iteration that ends the run with a failure *)
  Lemma step_fail_unfold ls es lg s' :
    step ls = Finish (Fail es lg) s' ->
    exists results sublog completed running',
      submit V St ops exec sub p g (ls_next V St ls) (ls_st V St ls) = (results, sublog, s')
      /\ wait_tasks V sched g (ls_step V St ls) (ls_running V St ls ++ results) = (completed, running')
      /\ lg = ls_log V St ls ++ next_entry V St p ls ++ sublog
      /\ ((exists e, es = [mkerr e]) \/ es = task_errors V completed).
  Proof.
    unfold Graph.step, step_limit_hit. rewrite Hdag.
    destruct (submit V St ops exec sub p g (ls_next V St ls) (ls_st V St ls)) as [[results sublog] s1] eqn:Es.
    destruct (wait_tasks V sched g (ls_step V St ls) (ls_running V St ls ++ results)) as [completed running'] eqn:Ew.
    fold (next_entry V St p ls).
    destruct (task_errors V completed) as [|e0 es0] eqn:Et.
    - destruct completed as [|c0 cl].
      + intros [= <- <- <-]. exists results, sublog, [], running'. repeat split; try reflexivity; try exact Ew. left. eauto.
      + destruct (calc_next V ops g (ls_chans V St ls) (task_outputs V (c0 :: cl))) as [[cs' ready]|e|].
        * destruct (alookup kEND ready); discriminate.
        * intros [= <- <- <-]. exists results, sublog, (c0 :: cl), running'. repeat split; try reflexivity; try exact Ew. left. eauto.
        * intros [= <- <- <-]. exists results, sublog, (c0 :: cl), running'. repeat split; try reflexivity; try exact Ew. left. eauto.
    - intros [= <- <- <-]. exists results, sublog, completed, running'. repeat split; try reflexivity; try exact Ew. right. now rewrite Et.
  Qed.

  (* FAILING RUNS. Whatever the schedule: every node failure a run reports (an error with a node path; the
     engine's own errors carry none) is a failure the denotation computes: the failing node is triggered by
     den, received den's input, and its body fails on it with that error. *)
  Theorem step_fail_den s0 ls Rv es lg s' ord :
    reach x s0 ls Rv -> topo_from g [kSTART] ord = true ->
    (forall k n, find_node g k = Some n -> k <> kSTART -> In k ord) ->
    step ls = Finish (Fail es lg) s' ->
    forall e, In e es -> e_path e <> [] ->
    exists k esk, stat V (den_run ord) k = DFail esk /\ In e esk.
  Proof.
    intros Hr Ht Hcov Hstep e He Hpath.
    destruct (step_fail_unfold ls es lg s' Hstep) as (results & sublog & completed & running' & Es & Ew & _ & [(e0 & ->) | -> ]).
    { destruct He as [<-|[]]. exfalso. now apply Hpath. }
    pose proof (reach_LX s0 ls Rv Hr) as HLX.
    destruct (LX_submitted ls Rv results sublog s' HLX Es) as [HEX' HRE'].
    destruct HLX as (HLD & _ & _).
    unfold task_errors in He. apply in_flat_map in He. destruct He as ([k r] & Hin & He).
    destruct r as [v|esk]; simpl in He; [destruct He|].
    assert (Hin' : In (k, TErr esk) (ls_running V St ls ++ results)).
    { eapply Permutation_in; [exact (wait_tasks_perm V g sched _ _ _ _ Ew)|]. apply in_app_iff. now left. }
    destruct (HRE' k esk Hin') as [(n & w & Hf & Hw & Ho)|(_ & ->)].
    2:{ destruct He as [<-|[]]. exfalso. now apply Hpath. }
    destruct (HEX' k w Hw) as (Hne & Rv' & more & E & HEF & Hres).
    exists k, esk. split; [|exact He].
    eapply den_run_failed; [eapply LD_DF; exact HLD|exact Ht|exact (Hcov k n Hf Hne)|exact E|exact HEF|exact Hres|exact Hf|exact Ho].
  Qed.

  (* the log of the outcome an iteration ends the run with: the tasks of that iteration are in it *)
  Lemma step_finish_log ls o s' :
    step ls = Finish o s' ->
    exists results sublog,
      submit V St ops exec sub p g (ls_next V St ls) (ls_st V St ls) = (results, sublog, s')
      /\ outcome_log V o = ls_log V St ls ++ next_entry V St p ls ++ sublog.
  Proof.
    unfold Graph.step, step_limit_hit. rewrite Hdag.
    destruct (submit V St ops exec sub p g (ls_next V St ls) (ls_st V St ls)) as [[results sublog] s1] eqn:Es.
    destruct (wait_tasks V sched g (ls_step V St ls) (ls_running V St ls ++ results)) as [completed running'] eqn:Ew.
    destruct (task_errors V completed) as [|e0 es0].
    - destruct completed as [|c0 cl].
      + intros [= <- <-]. exists results, sublog. split; reflexivity.
      + destruct (calc_next V ops g (ls_chans V St ls) (task_outputs V (c0 :: cl))) as [[cs' ready]|e|].
        * destruct (alookup kEND ready); [|discriminate]. intros [= <- <-]. exists results, sublog. split; reflexivity.
        * intros [= <- <-]. exists results, sublog. split; reflexivity.
        * intros [= <- <-]. exists results, sublog. split; reflexivity.
    - intros [= <- <-]. exists results, sublog. split; reflexivity.
  Qed.

  (* runner.run as a whole, whatever its outcome: every execution recorded in the log of the instance is of a
     node the denotation triggers, on the input the denotation assembles for it *)
  Theorem run_flat_executed_den s o s' ord t w :
    topo_from g [kSTART] ord = true -> In t ord ->
    run_flat V St ops exec sub sched p g x s = (o, s') ->
    In (p ++ [t], w) (own_events V p (outcome_log V o)) ->
    den_trig V ops g (den_run ord) t = TRun w.
  Proof.
    intros Ht Hk Erun Hin. pose proof Erun as Erun0. unfold run_flat in Erun.
    assert (Hm : forall o0 : outcome V, outcome_log V o0 = [run_marker V p] -> o = o0 -> False).
    { intros o0 El <-. rewrite El in Hin. unfold own_events, log_steps_at, run_marker in Hin. simpl in Hin.
      match type of Hin with context [list_eq_dec ?a ?b ?c] => destruct (list_eq_dec a b c) end; simpl in Hin; exact Hin. }
    destruct (init_chans V g) as [cs0|e|] eqn:Ei; [|injection Erun as <- _; exfalso; eapply Hm; [|reflexivity]; reflexivity..].
    destruct (calc_next V ops g cs0 [(kSTART, x)]) as [[cs1 ready]|e|] eqn:Ec; [|injection Erun as <- _; exfalso; eapply Hm; [|reflexivity]; reflexivity..].
    destruct (alookup kEND ready) as [v0|] eqn:Eend; [injection Erun as <- _; exfalso; eapply Hm; [|reflexivity]; reflexivity|].
    destruct (run_flat_reach V St ops g exec sub sched p x s cs0 cs1 ready _ _ Ei Ec Eend Erun0)
      as (ls & Rv & Hr & [Hstep|[-> _]]).
    - destruct (step_finish_log ls o s' Hstep) as (results & sublog & Es & El). rewrite El in Hin.
      pose proof (reach_LX s ls Rv Hr) as HLX.
      destruct (LX_submitted ls Rv results sublog s' HLX Es) as [HEX' _].
      destruct HLX as (HLD & _ & _).
      destruct (HEX' t w Hin) as (_ & Rv' & more & E & HEF & Hres).
      eapply den_run_executed; [eapply LD_DF; exact HLD|exact Ht|exact Hk|exact E|exact HEF|exact Hres].
    - eapply reach_den_executed; eassumption.
  Qed.

  Theorem run_flat_fail_den s es lg s' ord :
    topo_from g [kSTART] ord = true ->
    (forall k n, find_node g k = Some n -> k <> kSTART -> In k ord) ->
    run_flat V St ops exec sub sched p g x s = (Fail es lg, s') ->
    forall e, In e es -> e_path e <> [] ->
    exists k esk, stat V (den_run ord) k = DFail esk /\ In e esk.
  Proof.
    intros Ht Hcov Erun e He Hpath. pose proof Erun as Erun0. unfold run_flat in Erun.
    assert (Hm : forall c, es = [mkerr c] -> False).
    { intros c ->. destruct He as [<-|[]]. now apply Hpath. }
    destruct (init_chans V g) as [cs0|e1|] eqn:Ei; [|injection Erun as <- _; exfalso; eapply Hm; reflexivity..].
    destruct (calc_next V ops g cs0 [(kSTART, x)]) as [[cs1 ready]|e1|] eqn:Ec; [|injection Erun as <- _; exfalso; eapply Hm; reflexivity..].
    destruct (alookup kEND ready) as [v0|] eqn:Eend; [discriminate|].
    destruct (run_flat_reach V St ops g exec sub sched p x s cs0 cs1 ready _ _ Ei Ec Eend Erun0)
      as (ls & Rv & Hr & [Hstep|[Hf _]]).
    - eapply step_fail_den; eassumption.
    - injection Hf as -> _. exfalso. eapply Hm; reflexivity.
  Qed.
End DenLoop.
