(* Proofs/GenAgreeC07Validate.v — property C07, translator tie for the work-list of the builder:
   the Gallina functions tools/go2v (extractor "c07_validate") translated statement by statement
   from compose/graph.go (Gen/ValidateCode.v: getNodeInputType, getNodeOutputType,
   getNodeGenericHelper and the body of the entry loop of updateToValidateMap) are the model's
   [in_ty], [out_ty] and [process_entry] of Model/TypeBuilder.v that every C07 theorem is about.

   The translated code runs on the builder state extended by the genericHelper of every node
   (Model/TypeBuilderGenLib.v: a helper is the pair of types its input / output side is
   instantiated at); the model records directly the type a run-time converter checks.  The
   agreement is therefore stated with the invariant [gh_inv] (the helper of every position is
   (its input type, its output type)), which the translated body is proved to preserve: a
   source that takes the helper from the wrong neighbour or the wrong side
   (forPredecessorPassthrough for forSuccessorPassthrough), reads a type from the wrong
   accessor, reorders the inference cases, drops the removal of the entry or the hasChanged
   flag, or appends another converter makes this file stop compiling.
   Lifted to the whole loop: the loop skeleton (matched structurally by the extractor) run with
   the translated body is the model's [pass] / [update] ([gen_pass_agrees], [gen_update_agrees]).
   Field mappings are outside the model: the statements are proved for entries without mappings
   (nomap = true). *)
From Eino Require Import Base.Util Model.Types Model.TypesGenLib Model.TypeBuilder Model.TypeBuilderGenLib.
From Eino Require Import Proofs.TypesBuilder.
From Eino Require Gen.ValidateCode.
Module G := Gen.ValidateCode.
Arguments check_assignable : simpl never.

(* ------------------------------------------------------------------ the three accessors *)

Theorem gen_get_node_input_type_agrees : forall xs k, G.get_node_input_type xs k = in_ty (x_st xs) k.
Proof. intros; reflexivity. Qed.

Theorem gen_get_node_output_type_agrees : forall xs k, G.get_node_output_type xs k = out_ty (x_st xs) k.
Proof. intros; reflexivity. Qed.

(* the helper of START is (I, I), of END (O, O), of a node what was stored for it *)
Theorem gen_get_node_generic_helper_agrees : forall xs k,
  G.get_node_generic_helper xs k =
  if N.eqb k kSTART then gh_new (g_in (x_st xs)) (g_in (x_st xs))
  else if N.eqb k kEND then gh_new (g_out (x_st xs)) (g_out (x_st xs))
  else x_node_gh xs k.
Proof. intros; reflexivity. Qed.

(* ------------------------------------------------------------------ helpers follow the types *)

(* the helper of every position is (its input type, its output type): the converter the code
   takes from a helper checks the type the model records *)
Definition gh_inv (xs : xstate) : Prop :=
  forall k,
    (forall t, in_ty (x_st xs) k = Some t -> gh_conv_in (G.get_node_generic_helper xs k) = Some t) /\
    (forall t, out_ty (x_st xs) k = Some t -> gh_conv_out (G.get_node_generic_helper xs k) = Some t).

Lemma nlist_get_set : forall A (k k' : N) (a : A) l,
  nlist_get k' (nlist_set k a l) = if N.eqb k' k then Some a else nlist_get k' l.
Proof.
  intros A k k' a l; induction l as [|[k0 a0] l IH]; simpl.
  - reflexivity.
  - destruct (N.eqb_spec k k0) as [E|E]; simpl.
    + subst k0. destruct (N.eqb k' k); reflexivity.
    + destruct (N.eqb_spec k' k0) as [E1|E1].
      * subst k0. destruct (N.eqb_spec k' k) as [E2|E2]; [congruence | reflexivity].
      * exact IH.
Qed.

Lemma map_node_map_node : forall k f g l,
  map_node k f (map_node k g l) = map_node k (fun n => f (g n)) l.
Proof.
  intros k f g l; induction l as [|[k0 n] l IH]; simpl; [reflexivity|].
  destruct (N.eqb_spec k k0) as [E|E]; simpl.
  - subst k0. rewrite N.eqb_refl. reflexivity.
  - destruct (N.eqb_spec k k0); [congruence|]. rewrite IH. reflexivity.
Qed.

Lemma map_node_ext_get : forall k f g l,
  (forall n, nlist_get k l = Some n -> f n = g n) -> map_node k f l = map_node k g l.
Proof.
  intros k f g l; induction l as [|[k0 n] l IH]; simpl; intro H; [reflexivity|].
  destruct (N.eqb_spec k k0) as [E|E].
  - rewrite H; reflexivity.
  - rewrite IH; [reflexivity | exact H].
Qed.

(* the three assignments of an inference site are the model's [set_pass_ty] *)
Lemma typing_is_set_pass_ty : forall xs k t,
  x_st (x_set_out (x_set_in xs k (Some t)) k (x_node_in (x_set_in xs k (Some t)) k)) = set_pass_ty (x_st xs) k t.
Proof.
  intros xs k t. unfold x_set_out, x_set_in, x_node_in, set_pass_ty, get_node; simpl.
  rewrite get_map_node, N.eqb_refl, map_node_map_node. unfold set_nodes; simpl. f_equal.
  apply map_node_ext_get. intros n Hn. rewrite Hn. simpl. reflexivity.
Qed.

Lemma helper_frame : forall xs xs' k,
  x_gh xs' = x_gh xs -> g_in (x_st xs') = g_in (x_st xs) -> g_out (x_st xs') = g_out (x_st xs) ->
  G.get_node_generic_helper xs' k = G.get_node_generic_helper xs k.
Proof.
  intros xs xs' k A B C. unfold G.get_node_generic_helper, x_graph_gh, x_node_gh. rewrite A, B, C. reflexivity.
Qed.

Lemma helper_set_gh : forall xs e h k,
  G.get_node_generic_helper (x_set_gh xs e h) k =
  if N.eqb k kSTART then G.get_node_generic_helper xs k
  else if N.eqb k kEND then G.get_node_generic_helper xs k
  else if N.eqb k e then h else G.get_node_generic_helper xs k.
Proof.
  intros xs e h k. unfold G.get_node_generic_helper, x_node_gh, x_set_gh, x_graph_gh; simpl.
  destruct (N.eqb k kSTART); [reflexivity|]. destruct (N.eqb k kEND); [reflexivity|].
  rewrite nlist_get_set. destruct (N.eqb k e); reflexivity.
Qed.

Lemma in_ty_set_pass_ty : forall st e t k,
  in_ty (set_pass_ty st e t) k =
  if N.eqb k kSTART then in_ty st k else if N.eqb k kEND then in_ty st k
  else if N.eqb e k then (match get_node st k with Some _ => Some t | None => None end) else in_ty st k.
Proof.
  intros st e t k. unfold in_ty. simpl.
  destruct (N.eqb k kSTART); [reflexivity|]. destruct (N.eqb k kEND); [reflexivity|].
  rewrite get_node_set_pass_ty. destruct (N.eqb e k); [|reflexivity].
  destruct (get_node st k); reflexivity.
Qed.

Lemma out_ty_set_pass_ty : forall st e t k,
  out_ty (set_pass_ty st e t) k =
  if N.eqb k kSTART then out_ty st k else if N.eqb k kEND then out_ty st k
  else if N.eqb e k then (match get_node st k with Some _ => Some t | None => None end) else out_ty st k.
Proof.
  intros st e t k. unfold out_ty. simpl.
  destruct (N.eqb k kSTART); [reflexivity|]. destruct (N.eqb k kEND); [reflexivity|].
  rewrite get_node_set_pass_ty. destruct (N.eqb e k); [|reflexivity].
  destruct (get_node st k); reflexivity.
Qed.

(* typing node e with t and giving it the helper (t, t) keeps the helpers in step *)
Lemma gh_inv_typing : forall xs xs2 e t h,
  gh_inv xs -> x_st xs2 = set_pass_ty (x_st xs) e t -> x_gh xs2 = x_gh xs ->
  gh_conv_in h = Some t -> gh_conv_out h = Some t ->
  gh_inv (x_set_gh xs2 e h).
Proof.
  intros xs xs2 e t h I S Gh Hi Ho k.
  assert (F : forall k', G.get_node_generic_helper xs2 k' = G.get_node_generic_helper xs k').
  { intro k'. apply helper_frame; [exact Gh | rewrite S; reflexivity | rewrite S; reflexivity]. }
  rewrite helper_set_gh, !F. simpl. rewrite S, in_ty_set_pass_ty, out_ty_set_pass_ty.
  destruct (I k) as [I1 I2].
  destruct (N.eqb k kSTART); [split; assumption|]. destruct (N.eqb k kEND); [split; assumption|].
  rewrite (N.eqb_sym k e). destruct (N.eqb e k); [|split; assumption].
  destruct (get_node (x_st xs) k); split; intros t0 H; inversion H; subst; assumption.
Qed.

Lemma conv_out_for_succ : forall h t, gh_conv_out h = Some t ->
  gh_conv_in (gh_for_succ h) = Some t /\ gh_conv_out (gh_for_succ h) = Some t.
Proof. intros [[i o]|] t H; simpl in *; inversion H; auto. Qed.
Lemma conv_in_for_pred : forall h t, gh_conv_in h = Some t ->
  gh_conv_in (gh_for_pred h) = Some t /\ gh_conv_out (gh_for_pred h) = Some t.
Proof. intros [[i o]|] t H; simpl in *; inversion H; auto. Qed.

(* ------------------------------------------------------------------ the entry loop body *)

(* For every builder state whose helpers are in step with the types, every entry (s, e) of
   toValidateMap without field mappings: the translated body of the entry loop of
   updateToValidateMap keeps the entry when the model's [process_entry] does (nothing removed,
   hasChanged untouched, state untouched), fails when it fails, and otherwise removes the entry,
   sets hasChanged, leaves the builder state the model's function computes -- and the helpers
   are again in step, so the converter a later call appends is the one for the recorded type. *)
Theorem gen_validate_entry_agrees : forall u xs s e, gh_inv xs ->
  match process_entry u (x_st xs) s e with
  | PKeep => G.validate_entry u xs s e true = XCont false false xs
  | PDone st' => exists xs', G.validate_entry u xs s e true = XCont true true xs' /\ x_st xs' = st' /\ gh_inv xs'
  | PFail => G.validate_entry u xs s e true = XFail
  end.
Proof.
  intros u xs s e I. unfold process_entry, process_types, G.validate_entry.
  rewrite gen_get_node_output_type_agrees, gen_get_node_input_type_agrees.
  destruct (out_ty (x_st xs) s) as [a|] eqn:Ha; destruct (in_ty (x_st xs) e) as [b|] eqn:Hb; simpl.
  - (* both known: the check *)
    destruct (check_assignable u (Some a) (Some b)) eqn:C; simpl; try reflexivity.
    + eexists; split; [reflexivity|]. split; [reflexivity | exact I].
    + destruct (I e) as [I1 _]. rewrite (I1 b Hb). simpl.
      eexists; split; [reflexivity|]. split; [reflexivity|].
      match goal with |- gh_inv ?X => intro k; rewrite (helper_frame xs X k) end;
        [apply (I k) | reflexivity | reflexivity | reflexivity].
  - (* forward inference *)
    eexists; split; [reflexivity|]. split.
    + simpl. apply typing_is_set_pass_ty.
    + destruct (I s) as [_ I2]. destruct (conv_out_for_succ _ _ (I2 a Ha)) as [P Q].
      eapply gh_inv_typing with (t := a); [exact I | apply typing_is_set_pass_ty | reflexivity | |].
      * rewrite (helper_frame xs _ s); [exact P | reflexivity | reflexivity | reflexivity].
      * rewrite (helper_frame xs _ s); [exact Q | reflexivity | reflexivity | reflexivity].
  - (* backward inference *)
    eexists; split; [reflexivity|]. split.
    + simpl. apply typing_is_set_pass_ty.
    + destruct (I e) as [I1 _]. destruct (conv_in_for_pred _ _ (I1 b Hb)) as [P Q].
      eapply gh_inv_typing with (t := b); [exact I | apply typing_is_set_pass_ty | reflexivity | |].
      * rewrite (helper_frame xs _ e); [exact P | reflexivity | reflexivity | reflexivity].
      * rewrite (helper_frame xs _ e); [exact Q | reflexivity | reflexivity | reflexivity].
  - reflexivity.
Qed.

(* ------------------------------------------------------------------ the whole work-list loop *)

(* the loop skeleton run with the translated body is the model's [pass] ... *)
Theorem gen_pass_agrees : forall u todo xs, gh_inv xs ->
  match x_pass (G.validate_entry u) xs todo with
  | Some (xs', kept, ch) => pass u (x_st xs) todo = Some (x_st xs', kept, ch) /\ gh_inv xs'
  | None => pass u (x_st xs) todo = None
  end.
Proof.
  intros u todo; induction todo as [|[s e] rest IH]; intros xs I; simpl.
  - split; [reflexivity | exact I].
  - pose proof (gen_validate_entry_agrees u xs s e I) as A.
    destruct (process_entry u (x_st xs) s e) as [|st1|].
    + rewrite A. specialize (IH xs I). destruct (x_pass (G.validate_entry u) xs rest) as [[[xs' kept] ch]|].
      * destruct IH as [P Q]. rewrite P. split; [reflexivity | exact Q].
      * rewrite IH. reflexivity.
    + destruct A as [xs1 [A [S1 I1]]]. rewrite A. subst st1. specialize (IH xs1 I1).
      destruct (x_pass (G.validate_entry u) xs1 rest) as [[[xs' kept] ch]|].
      * destruct IH as [P Q]. rewrite P. split; [reflexivity | exact Q].
      * rewrite IH. reflexivity.
    + rewrite A. reflexivity.
Qed.

(* ... and the outer loop the model's [update] *)
Theorem gen_update_agrees : forall u fuel orc n xs, gh_inv xs ->
  match x_update (G.validate_entry u) fuel orc n xs with
  | Some (Some xs') => update u fuel orc n (x_st xs) = UOk (x_st xs') /\ gh_inv xs'
  | Some None => update u fuel orc n (x_st xs) = UFail
  | None => update u fuel orc n (x_st xs) = UFuel
  end.
Proof.
  intros u fuel; induction fuel as [|f IH]; intros orc n xs I; simpl; [reflexivity|].
  pose proof (gen_pass_agrees u (group_order (orc n) (g_tvm (x_st xs))) xs I) as A.
  destruct (x_pass (G.validate_entry u) xs (group_order (orc n) (g_tvm (x_st xs)))) as [[[xs' kept] ch]|].
  - destruct A as [P Q]. rewrite P.
    assert (I' : gh_inv (x_set_tvm xs' kept)).
    { intro k. rewrite (helper_frame xs' (x_set_tvm xs' kept) k); [apply (Q k) | reflexivity | reflexivity | reflexivity]. }
    destruct ch.
    + apply (IH orc (S n) (x_set_tvm xs' kept) I').
    + split; [reflexivity | exact I'].
  - rewrite A. reflexivity.
Qed.

(* ------------------------------------------------------------------ non-vacuity *)

Definition ex_u : univ := {| u_conc := [(0, [1; 2]); (1, [2])]%N; u_iface := [(1, [2])]%N |}.
(* START:T1, END:T1; node 2 = passthrough (no type yet), node 3 = lambda I2 -> T1, node 4 = lambda T2 -> T1 *)
Definition ex_xs : xstate :=
  {| x_st := fst (run_ops ex_u (fun _ _ _ => []) 0 (init_graph (TConc 0) (TConc 0) None)
                    [OpPass 2 None None; OpNode 3 (TIface 1) (TConc 0) None None; OpNode 4 (TConc 1) (TConc 0) None None]%N);
     x_gh := [(3, gh_new (TIface 1) (TConc 0)); (4, gh_new (TConc 1) (TConc 0))]%N |}.

Lemma ex_xs_inv : gh_inv ex_xs.
Proof.
  intro k. unfold G.get_node_generic_helper, in_ty, out_ty.
  destruct (N.eqb k kSTART) eqn:E1; [split; intros t H; inversion H; reflexivity|].
  destruct (N.eqb k kEND) eqn:E2; [split; intros t H; inversion H; reflexivity|].
  unfold get_node, x_node_gh. simpl.
  destruct (N.eqb k 2); [split; intros t H; discriminate|].
  destruct (N.eqb k 3); [split; intros t H; inversion H; reflexivity|].
  destruct (N.eqb k 4); [split; intros t H; inversion H; reflexivity|].
  split; intros t H; discriminate.
Qed.

(* forward inference START -> 2 types the passthrough node and gives it the helper (T1, T1);
   backward inference 2 -> 3 gives (I2, I2); START:T1 -> 3:I2 is Must (no converter);
   3:(out T1) -> 4:T2 fails; 2 -> 2 stays pending; and behind the forward inference the May
   edge 2:(I2) -> 4:T2 gets the converter for T2 *)
Example gen_validate_entry_examples :
  (exists xs', G.validate_entry ex_u ex_xs 0%N 2%N true = XCont true true xs' /\
               in_ty (x_st xs') 2%N = Some (TConc 0) /\ x_node_gh xs' 2%N = gh_new (TConc 0) (TConc 0)) /\
  (exists xs', G.validate_entry ex_u ex_xs 2%N 3%N true = XCont true true xs' /\
               out_ty (x_st xs') 2%N = Some (TIface 1) /\ x_node_gh xs' 2%N = gh_new (TIface 1) (TIface 1) /\
               exists xs'', G.validate_entry ex_u xs' 2%N 4%N true = XCont true true xs'' /\
                            g_hedge (x_st xs'') = [(2, 4, TConc 1)]%N) /\
  G.validate_entry ex_u ex_xs 0%N 3%N true = XCont true true ex_xs /\
  G.validate_entry ex_u ex_xs 3%N 4%N true = XFail /\
  G.validate_entry ex_u ex_xs 2%N 2%N true = XCont false false ex_xs /\
  G.validate_entry ex_u ex_xs 0%N 2%N false = XMapped.
Proof.
  split; [eexists; split; [reflexivity|]; split; reflexivity|].
  split; [eexists; split; [reflexivity|]; split; [reflexivity|]; split; [reflexivity|]; eexists; split; reflexivity|].
  repeat split; reflexivity.
Qed.
