(* Proofs/SerCanon.v — soundness of the comparison of Model/SerCanon.v w.r.t. the equivalence
   of the property (Base/Universe.v [veq]). *)
From Coq Require Import List Bool Arith NArith ZArith String Ascii Lia.
From Eino Require Import Base.Util Base.Universe Model.SerCanon.
Import ListNotations.
Local Open Scope bool_scope.

Lemma map_canon_sound : forall es gs,
  Forall (fun a => forall b, canon a = canon b -> a ≅ b) es ->
  map canon es = map canon gs -> Forall2 veq es gs.
Proof.
  induction es as [|e es IH]; intros [|g gs] HF H; simpl in H; try discriminate H; constructor.
  - inversion HF; subst. inversion H. auto.
  - inversion HF; subst. inversion H. auto.
Qed.
Lemma map_canon_kv_sound : forall (kvs gs : list (val * val)),
  Forall (fun kv => (forall b, canon (fst kv) = canon b -> fst kv ≅ b) /\
                    (forall b, canon (snd kv) = canon b -> snd kv ≅ b)) kvs ->
  map (fun kv => (canon (fst kv), canon (snd kv))) kvs = map (fun kv => (canon (fst kv), canon (snd kv))) gs ->
  Forall2 (fun a b => veq (fst a) (fst b) /\ veq (snd a) (snd b)) kvs gs.
Proof.
  induction kvs as [|e es IH]; intros [|g gs] HF H; simpl in H; try discriminate H; constructor.
  - inversion HF as [|? ? [Ha Hb] _]; subst. inversion H. auto.
  - inversion HF; subst. inversion H. auto.
Qed.
Lemma map_canon_f_sound : forall (fs gs : list (string * val)),
  Forall (fun fv => forall b, canon (snd fv) = canon b -> snd fv ≅ b) fs ->
  map (fun fv => (fst fv, canon (snd fv))) fs = map (fun fv => (fst fv, canon (snd fv))) gs ->
  Forall2 (fun fv gv => fst fv = fst gv /\ veq (snd fv) (snd gv)) fs gs.
Proof.
  induction fs as [|e es IH]; intros [|g gs] HF H; simpl in H; try discriminate H; constructor.
  - inversion HF; subst. inversion H. auto.
  - inversion HF; subst. inversion H. auto.
Qed.

Lemma canon_sound : forall a b, canon a = canon b -> a ≅ b.
Proof.
  induction a using val_ind'; intros b' Heq.
  7: destruct es as [|e0 es0].
  10: destruct kvs as [|kv0 kvs0].
  all: destruct b' as [b0 l0|n0 b0 l0|n0 gs'|t0|w0|t0 [[|g' gs']|]|k0 t0 [[|kv' kvs']|]|it0 [w0|]|t0 gs'|d0 w0];
    simpl in Heq; try discriminate Heq.
  all: try (inversion Heq; subst; constructor; simpl; auto; fail).
  - inversion Heq; subst. constructor. now apply map_canon_f_sound.
  - inversion Heq; subst. constructor. simpl.
    apply (map_canon_sound (e0 :: es0) (g' :: gs') H). simpl. congruence.
  - inversion Heq; subst. constructor. simpl.
    apply (map_canon_kv_sound (kv0 :: kvs0) (kv' :: kvs') H). simpl. congruence.
  - inversion Heq; subst. constructor. now apply map_canon_sound.
Qed.

(* val_eqb decides equality *)
Lemma val_eqb_eq : forall a b, val_eqb a b = true -> a = b.
Proof.
  induction a using val_ind'; intros b' He; destruct b'; simpl in He; try discriminate He.
  - apply andb_true_iff in He. destruct He as [H1 H2]. apply base_eqb_eq in H1. apply lit_eqb_eq in H2. now subst.
  - apply andb_true_iff in He. destruct He as [H1 H2]. apply andb_true_iff in H1. destruct H1 as [H0 H1].
    apply N.eqb_eq in H0. apply base_eqb_eq in H1. apply lit_eqb_eq in H2. now subst.
  - apply andb_true_iff in He. destruct He as [Hn Hgo]. apply N.eqb_eq in Hn. subst. f_equal.
    revert fs0 Hgo. induction H as [|[f v] fs Hv _ IH]; intros [|[g w] gs] Hgo; simpl in Hgo;
      try discriminate Hgo; [reflexivity|].
    apply andb_true_iff in Hgo. destruct Hgo as [Hgo Hr]. apply andb_true_iff in Hgo. destruct Hgo as [Hf Hvw].
    apply String.eqb_eq in Hf. subst. simpl in Hv. rewrite (Hv _ Hvw). f_equal. now apply IH.
  - apply ty_eqb_eq in He. now subst.
  - f_equal. now apply IHa.
  - apply andb_true_iff in He. destruct He as [Ht Ho]. apply ty_eqb_eq in Ht. subst.
    destruct o; [discriminate Ho|reflexivity].
  - apply andb_true_iff in He. destruct He as [Ht Ho]. apply ty_eqb_eq in Ht. subst.
    destruct o as [gs|]; [|discriminate Ho]. do 2 f_equal.
    revert gs Ho. induction H as [|e es He _ IH]; intros [|g gs] Ho; simpl in Ho; try discriminate Ho; [reflexivity|].
    apply andb_true_iff in Ho. destruct Ho as [H1 H2]. rewrite (He _ H1). f_equal. now apply IH.
  - apply andb_true_iff in He. destruct He as [Ht Ho]. apply andb_true_iff in Ht. destruct Ht as [Hk Ht].
    apply ty_eqb_eq in Hk. apply ty_eqb_eq in Ht. subst. destruct o; [discriminate Ho|reflexivity].
  - apply andb_true_iff in He. destruct He as [Ht Ho]. apply andb_true_iff in Ht. destruct Ht as [Hk Ht].
    apply ty_eqb_eq in Hk. apply ty_eqb_eq in Ht. subst.
    destruct o as [gs|]; [|discriminate Ho]. do 2 f_equal.
    revert gs Ho. induction H as [|[a1 b1] es [Ha Hb] _ IH]; intros [|[a2 b2] gs] Ho; simpl in Ho;
      try discriminate Ho; [reflexivity|].
    apply andb_true_iff in Ho. destruct Ho as [H1 H3]. apply andb_true_iff in H1. destruct H1 as [H1 H2].
    simpl in Ha, Hb. rewrite (Ha _ H1), (Hb _ H2). f_equal. now apply IH.
  - apply andb_true_iff in He. destruct He as [Ht Ho]. apply ty_eqb_eq in Ht. subst.
    destruct o; [discriminate Ho|reflexivity].
  - apply andb_true_iff in He. destruct He as [Ht Ho]. apply ty_eqb_eq in Ht. subst.
    destruct o as [w|]; [|discriminate Ho]. do 2 f_equal. now apply IHa.
  - apply andb_true_iff in He. destruct He as [Ht Ho]. apply ty_eqb_eq in Ht. subst. f_equal.
    revert es0 Ho. induction H as [|e es He _ IH]; intros [|g gs] Ho; simpl in Ho; try discriminate Ho; [reflexivity|].
    apply andb_true_iff in Ho. destruct Ho as [H1 H2]. rewrite (He _ H1). f_equal. now apply IH.
  - apply andb_true_iff in He. destruct He as [Hd Hw]. apply N.eqb_eq in Hd. subst. f_equal. now apply IHa.
Qed.

(* the comparison of the correspondence check never identifies more than the property does:
   two values it accepts as equal are equivalent (deeply equal, nil ~ empty container) *)
Lemma val_equivb_sound : forall a b, val_equivb a b = true -> a ≅ b.
Proof. intros a b H. apply canon_sound. now apply val_eqb_eq. Qed.
