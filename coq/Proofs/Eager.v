(* Proofs/Eager.v — property C03, eager mode (Workflow): every schedule of run_eager reaches the
   same value and the same executions feeding END. *)
From Eino Require Import Base.Util Model.Confluence Proofs.Confluence.
From Coq Require Import Permutation Lia.

Lemma nmem_In x l : nmem x l = true <-> In x l.
Proof.
  unfold nmem. rewrite existsb_exists. split.
  - intros (y & Hy & E). apply N.eqb_eq in E. subst. exact Hy.
  - intros H. exists x. split; [exact H|apply N.eqb_refl].
Qed.

Lemma nmem_false x l : nmem x l = false <-> ~ In x l.
Proof. rewrite <- nmem_In. destruct (nmem x l); split; intros H; congruence. Qed.

Fixpoint olook (p : nid) (O : list (nid * val)) : option val :=
  match O with
  | [] => None
  | (q, v) :: O' => if N.eqb p q then Some v else olook p O'
  end.

Lemma olook_In p v O : olook p O = Some v -> In (p, v) O.
Proof.
  induction O as [|[q w] O IH]; simpl; [discriminate|].
  destruct (N.eqb p q) eqn:E.
  - apply N.eqb_eq in E. subst. intros H; inversion H; subst. left; reflexivity.
  - intros H. right. apply IH, H.
Qed.

Lemma olook_dom p O : In p (map fst O) <-> exists v, olook p O = Some v.
Proof.
  induction O as [|[q w] O IH]; simpl.
  - split; [tauto|intros (v & H); discriminate].
  - destruct (N.eqb p q) eqn:E.
    + apply N.eqb_eq in E. subst. split; [eauto|auto].
    + apply N.eqb_neq in E. rewrite <- IH. split; [intros [H|H]; [congruence|exact H]|auto].
Qed.

Lemma olook_none p O : olook p O = None <-> ~ In p (map fst O).
Proof.
  rewrite olook_dom. destruct (olook p O) as [v|]; split; intros H; try congruence.
  - exfalso. apply H. eauto.
  - intros (v & E). discriminate.
Qed.

Section Eager.
Variable g : graph.
Hypothesis Hnd : NoDup (map n_id g).
Hypothesis Hstart : ~ In START (map n_id g).

Lemma node_eq n n' : In n g -> In n' g -> n_id n = n_id n' -> n = n'.
Proof.
  clear Hstart. induction g as [|a g' IH]; simpl; [tauto|]. inversion Hnd as [|? ? Hn Hd]; subst.
  intros [<-|H1] [<-|H2] E; auto.
  - exfalso. apply Hn. rewrite E. apply in_map, H2.
  - exfalso. apply Hn. rewrite <- E. apply in_map, H1.
Qed.

(* ---- the value a node delivers / the input it is started with, independent of any schedule *)
Inductive dval : nid -> val -> Prop :=
| dv_start : dval START input_val
| dv_node n i : In n g -> n_fail n = 0%N -> n_preds n <> [] -> dins (n_preds n) i ->
                dval (n_id n) (node_out (n_id n) i)
with dins : list nid -> val -> Prop :=
| di_nil : dins [] []
| di_cons p ps v i : dval p v -> dins ps i -> dins (p :: ps) (v ++ i).

Scheme dval_ind2 := Induction for dval Sort Prop
  with dins_ind2 := Induction for dins Sort Prop.
Combined Scheme dval_dins_ind from dval_ind2, dins_ind2.

Lemma dval_fun :
  (forall x v, dval x v -> forall v', dval x v' -> v = v') /\
  (forall ps i, dins ps i -> forall i', dins ps i' -> i = i').
Proof.
  apply dval_dins_ind.
  - intros v' H. inversion H; subst; [reflexivity|].
    exfalso. apply Hstart. match goal with E : n_id _ = START |- _ => rewrite <- E end. apply in_map. assumption.
  - intros n i Hin Hf Hp Hd IH v' H. inversion H as [E|n' i' Hin' Hf' Hp' Hd' E]; subst.
    + exfalso. apply Hstart. rewrite E. apply in_map, Hin.
    + assert (n' = n) by (apply node_eq; auto). subst n'. rewrite (IH _ Hd'). reflexivity.
  - intros i' H. inversion H. reflexivity.
  - intros p ps v i Hv IHv Hi IHi i' H. inversion H; subst. rewrite (IHv _ H2), (IHi _ H4). reflexivity.
Qed.


(* ---- lookups in the channel state *)
Lemma vfind_block (m p x : nid) (v : val) ds :
  vfind (m, p) (map (fun d => ((d, x), v)) ds) = if N.eqb p x && nmem m ds then Some v else None.
Proof.
  induction ds as [|d ds IH]; simpl; [rewrite andb_false_r; reflexivity|].
  unfold k2eqb at 1. simpl. rewrite IH.
  destruct (N.eqb m d) eqn:E1, (N.eqb p x) eqn:E2; simpl; reflexivity.
Qed.

Lemma dmem_block (m p x : nid) ds :
  dmem (m, p) (map (fun d => (d, x)) ds) = N.eqb p x && nmem m ds.
Proof.
  unfold dmem. induction ds as [|d ds IH]; simpl; [rewrite andb_false_r; reflexivity|].
  unfold k2eqb at 1. simpl. rewrite IH.
  destruct (N.eqb m d) eqn:E1, (N.eqb p x) eqn:E2; simpl; reflexivity.
Qed.

Lemma succs_mem n x : In n g -> nmem (n_id n) (succs g x) = nmem x (n_preds n).
Proof.
  intros Hin. unfold succs.
  destruct (nmem x (n_preds n)) eqn:E.
  - apply nmem_In. apply in_map. apply filter_In. split; assumption.
  - apply nmem_false. intros H. apply in_map_iff in H. destruct H as (n' & Eid & H').
    apply filter_In in H'. destruct H' as [Hin' Hm].
    assert (n' = n) by (apply node_eq; auto). subst. congruence.
Qed.

Lemma report_vfind s x v n p : In n g ->
  vfind (n_id n, p) (vals (report g s (x, v))) =
  if N.eqb p x && nmem x (n_preds n) then Some v else vfind (n_id n, p) (vals s).
Proof.
  intros Hin. unfold report. simpl. rewrite vfind_app, vfind_block, succs_mem by exact Hin.
  destruct (N.eqb p x && nmem x (n_preds n)); reflexivity.
Qed.

Lemma report_dmem s x v n p : In n g ->
  dmem (n_id n, p) (deps (report g s (x, v))) =
  (N.eqb p x && nmem x (n_preds n)) || dmem (n_id n, p) (deps s).
Proof.
  intros Hin. unfold report. simpl. rewrite dmem_app, dmem_block, succs_mem by exact Hin. reflexivity.
Qed.

Lemma clear_all_vfind ns : forall s k,
  vfind k (vals (fold_left clear ns s)) = if nmem (fst k) ns then None else vfind k (vals s).
Proof.
  induction ns as [|a ns IH]; simpl; intros s k; [reflexivity|].
  rewrite IH. unfold clear at 1. simpl. rewrite vfind_filter_tgt.
  destruct (N.eqb (fst k) a), (nmem (fst k) ns); reflexivity.
Qed.

Lemma clear_all_dmem ns : forall s k,
  dmem k (deps (fold_left clear ns s)) = if nmem (fst k) ns then false else dmem k (deps s).
Proof.
  induction ns as [|a ns IH]; simpl; intros s k; [reflexivity|].
  rewrite IH. unfold clear at 1. simpl. rewrite dmem_filter_tgt.
  destruct (N.eqb (fst k) a), (nmem (fst k) ns); reflexivity.
Qed.

(* readiness and the merged input only look at the entries whose target is the node *)
Lemma ready_ext s s' n :
  (forall p, vfind (n_id n, p) (vals s) = vfind (n_id n, p) (vals s')) ->
  (forall p, dmem (n_id n, p) (deps s) = dmem (n_id n, p) (deps s')) ->
  ready Dag s n = ready Dag s' n.
Proof.
  intros A B. simpl. f_equal. unfold has_val. induction (n_preds n) as [|p ps IH]; simpl; [reflexivity|].
  rewrite A, B, IH. reflexivity.
Qed.


Lemma forallb_ext_in {A} (f h : A -> bool) l :
  (forall x, In x l -> f x = h x) -> forallb f l = forallb h l.
Proof.
  induction l as [|a l IH]; simpl; intros H; [reflexivity|].
  rewrite (H a) by (left; reflexivity). rewrite IH; [reflexivity|]. intros x Hx. apply H. right; exact Hx.
Qed.

Definition nonnil {A} (l : list A) : bool := match l with [] => false | _ => true end.

(* ---- the channel state seen through lookups: [St] = the nodes that have been started,
        [O] = the outputs of the nodes that have completed (START included) *)
Record CL (s : cstate) (St : nid -> Prop) (O : list (nid * val)) : Prop := mkCL {
  cl_started : forall n p, In n g -> St (n_id n) ->
      vfind (n_id n, p) (vals s) = None /\ dmem (n_id n, p) (deps s) = false;
  cl_un : forall n p, In n g -> ~ St (n_id n) ->
      vfind (n_id n, p) (vals s) = (if nmem p (n_preds n) then olook p O else None) /\
      dmem (n_id n, p) (deps s) = nmem p (n_preds n) && nmem p (map fst O);
}.

Lemma CL_iff s St St' O : (forall y, St y <-> St' y) -> CL s St O -> CL s St' O.
Proof.
  intros E [A B]. split; intros n p Hin H.
  - apply A; [exact Hin|apply E, H].
  - apply B; [exact Hin|]. intros K. apply H, E, K.
Qed.

Lemma ready_started s St O n : CL s St O -> In n g -> St (n_id n) -> ready Dag s n = false.
Proof.
  intros C Hin H. simpl. destruct (n_preds n) as [|p ps]; [reflexivity|]. simpl.
  destruct (cl_started _ _ _ C n p Hin H) as [_ ->]. reflexivity.
Qed.

Lemma ready_un s St O n : CL s St O -> In n g -> ~ St (n_id n) ->
  ready Dag s n = nonnil (n_preds n) && forallb (fun p => nmem p (map fst O)) (n_preds n).
Proof.
  intros C Hin H. simpl. f_equal. apply forallb_ext_in. intros p Hp.
  destruct (cl_un _ _ _ C n p Hin H) as [A B]. unfold has_val. rewrite A, B.
  apply nmem_In in Hp. rewrite Hp. simpl.
  destruct (olook p O) as [v|] eqn:E.
  - assert (K : In p (map fst O)) by (apply olook_dom; eauto). apply nmem_In in K. rewrite K. reflexivity.
  - apply olook_none in E. apply nmem_false in E. rewrite E. reflexivity.
Qed.

Lemma CL_report s St O x v :
  CL s St O -> ~ In x (map fst O) ->
  (forall n, In n g -> St (n_id n) -> ~ In x (n_preds n)) ->
  CL (report g s (x, v)) St ((x, v) :: O).
Proof.
  intros C Hx Hs. split; intros n p Hin H.
  - rewrite report_vfind, report_dmem by exact Hin.
    assert (E : nmem x (n_preds n) = false) by (apply nmem_false, Hs; assumption).
    rewrite E, andb_false_r. simpl. apply (cl_started _ _ _ C); assumption.
  - rewrite report_vfind, report_dmem by exact Hin.
    destruct (cl_un _ _ _ C n p Hin H) as [A B]. rewrite A, B. simpl.
    destruct (N.eqb p x) eqn:E; simpl.
    + apply N.eqb_eq in E. subst p. destruct (nmem x (n_preds n)) eqn:E2; simpl.
      * split; reflexivity.
      * split; reflexivity.
    + split; reflexivity.
Qed.

Lemma CL_clear s St O (rs : list node) :
  CL s St O ->
  CL (fold_left clear (map n_id rs) s) (fun y => St y \/ In y (map n_id rs)) O.
Proof.
  intros C. split; intros n p Hin H.
  - rewrite clear_all_vfind, clear_all_dmem. simpl.
    destruct (nmem (n_id n) (map n_id rs)) eqn:E; [split; reflexivity|].
    apply nmem_false in E. destruct H as [H|H]; [|contradiction].
    apply (cl_started _ _ _ C); assumption.
  - rewrite clear_all_vfind, clear_all_dmem. simpl.
    assert (E : nmem (n_id n) (map n_id rs) = false) by (apply nmem_false; intros K; apply H; right; exact K).
    rewrite E. apply (cl_un _ _ _ C); [exact Hin|]. intros K. apply H. left; exact K.
Qed.

Lemma nth_error_remove_perm {A} (l : list A) : forall i t,
  nth_error l i = Some t -> Permutation l (t :: remove_nth i l).
Proof.
  induction l as [|a l IH]; intros [|i] t H; simpl in *; try discriminate.
  - inversion H; subst. apply Permutation_refl.
  - eapply perm_trans; [apply perm_skip, IH, H|apply perm_swap].
Qed.


Lemma dins_flat (f : nid -> val) ps :
  (forall p, In p ps -> dval p (f p)) -> dins ps (flat_map f ps).
Proof.
  induction ps as [|p ps IH]; simpl; intros H; [constructor|].
  constructor; [apply H; left; reflexivity|apply IH; intros q Hq; apply H; right; exact Hq].
Qed.

(* one completed task (x, v) is reported and the ready nodes are taken *)
Lemma take_step s St O x v :
  CL s St O -> ~ In x (map fst O) ->
  (forall n, In n g -> St (n_id n) -> ~ In x (n_preds n)) ->
  (forall p w, In (p, w) O -> dval p w) -> dval x v ->
  let s1 := report g s (x, v) in
  let rs := filter (ready Dag s1) g in
  let St' := fun y => St y \/ In y (map n_id rs) in
  let s2 := fold_left clear (map n_id rs) s1 in
  (forall n, In n rs -> In n g /\ ~ St (n_id n) /\ n_preds n <> [] /\
                        (forall p, In p (n_preds n) -> In p (x :: map fst O)) /\
                        dins (n_preds n) (get_input s1 n)) /\
  CL s2 St' ((x, v) :: O) /\
  (forall n, In n g -> ~ St' (n_id n) -> ready Dag s2 n = false) /\
  NoDup (map n_id rs).
Proof.
  intros C Hx Hs HO Hv s1 rs St' s2.
  assert (C1 : CL s1 St ((x, v) :: O)) by (apply CL_report; assumption).
  assert (HO' : forall p w, In (p, w) ((x, v) :: O) -> dval p w).
  { intros p w [E|H]; [inversion E; subst; exact Hv|apply HO, H]. }
  split; [|split; [|split]].
  - intros n Hn. apply filter_In in Hn. destruct Hn as [Hin Hr].
    assert (HnS : ~ St (n_id n)).
    { intros K. rewrite (ready_started _ _ _ _ C1 Hin K) in Hr. discriminate. }
    rewrite (ready_un _ _ _ _ C1 Hin HnS) in Hr. apply andb_true_iff in Hr. destruct Hr as [Hnn Hall].
    assert (Hp : forall p, In p (n_preds n) -> In p (x :: map fst O)).
    { intros p Hp. rewrite forallb_forall in Hall. apply nmem_In. apply (Hall p Hp). }
    split; [exact Hin|]. split; [exact HnS|]. split; [destruct (n_preds n); [discriminate|congruence]|].
    split; [exact Hp|].
    unfold get_input. apply dins_flat. intros p Hpp.
    destruct (cl_un _ _ _ C1 n p Hin HnS) as [A _]. rewrite A.
    assert (E : nmem p (n_preds n) = true) by (apply nmem_In, Hpp). rewrite E.
    assert (K : In p (map fst ((x, v) :: O))) by (apply Hp, Hpp).
    apply olook_dom in K. destruct K as (w & K). rewrite K. apply HO'. apply olook_In, K.
  - apply CL_clear. exact C1.
  - intros n Hin HnS.
    assert (K1 : ~ St (n_id n)) by (intros K; apply HnS; left; exact K).
    assert (K2 : ~ In (n_id n) (map n_id rs)) by (intros K; apply HnS; right; exact K).
    assert (E : ready Dag s2 n = ready Dag s1 n).
    { apply ready_ext; intros p; unfold s2; rewrite ?clear_all_vfind, ?clear_all_dmem; simpl;
        apply nmem_false in K2; rewrite K2; reflexivity. }
    rewrite E. destruct (ready Dag s1 n) eqn:R; [|reflexivity].
    exfalso. apply K2. apply in_map. apply filter_In. split; assumption.
  - apply filter_ids_nodup. exact Hnd.
Qed.


Definition started (running : list (node * val)) (O : list (nid * val)) (y : nid) : Prop :=
  In y (ids_of running) \/ In y (map fst O).

(* invariant of the eager run loop: [O] = outputs of the completed nodes (START included) *)
Record RI (s : cstate) (running : list (node * val)) (O : list (nid * val)) (log : exec_log) : Prop := mkRI {
  ri_cl : CL s (started running O) O;
  ri_nr : forall n, In n g -> ~ started running O (n_id n) -> ready Dag s n = false;
  ri_O : forall p v, In (p, v) O -> dval p v;
  ri_dom : forall p, In p (map fst O) -> p = START \/ In p (map n_id g);
  ri_nd : NoDup (ids_of running ++ map fst O);
  ri_run : forall n i, In (n, i) running ->
      In n g /\ n_id n <> END /\ n_preds n <> [] /\ dins (n_preds n) i /\
      (forall p, In p (n_preds n) -> In p (map fst O));
  ri_done : forall n, In n g -> In (n_id n) (map fst O) -> forall p, In p (n_preds n) -> In p (map fst O);
  ri_noend : ~ In END (map fst O);
  ri_log_nd : NoDup (map fst log);
  ri_log_in : forall x i, In (x, i) log -> x <> END /\ exists n, In n g /\ n_id n = x /\ dins (n_preds n) i;
  ri_log_st : forall y, In y (map fst log) <-> (started running O y /\ y <> START);
}.

Lemma ids_of_app a b : ids_of (a ++ b) = ids_of a ++ ids_of b.
Proof. unfold ids_of. apply map_app. Qed.

Lemma ids_of_tasks (f : node -> val) rs : ids_of (map (fun n => (n, f n)) rs) = map n_id rs.
Proof. unfold ids_of. rewrite map_map. reflexivity. Qed.

Lemma log_of_ids ts : map fst (log_of ts) = ids_of ts.
Proof. unfold log_of, ids_of. rewrite map_map. reflexivity. Qed.

Lemma NoDup_app_intro {A} (a b : list A) :
  NoDup a -> NoDup b -> (forall y, In y a -> ~ In y b) -> NoDup (a ++ b).
Proof.
  induction a as [|x a IH]; simpl; intros Ha Hb H; [exact Hb|].
  inversion Ha as [|? ? Hn Hd]; subst. constructor.
  - intros K. apply in_app_or in K. destruct K as [K|K]; [contradiction|]. apply (H x); [left; reflexivity|exact K].
  - apply IH; [exact Hd|exact Hb|]. intros y Hy. apply H. right; exact Hy.
Qed.

Lemma find_is_end_some (f : node -> val) rs nE vE :
  find is_end (map (fun n => (n, f n)) rs) = Some (nE, vE) -> In nE rs /\ n_id nE = END /\ vE = f nE.
Proof.
  intros H. apply find_some in H. destruct H as [Hin He]. apply in_map_iff in Hin.
  destruct Hin as (n & E & Hn). inversion E; subst. unfold is_end in He. simpl in He.
  apply N.eqb_eq in He. auto.
Qed.

Lemma find_is_end_none (f : node -> val) rs :
  find is_end (map (fun n => (n, f n)) rs) = None -> forall n, In n rs -> n_id n <> END.
Proof.
  intros H n Hn E. pose proof (find_none _ _ H (n, f n)) as K.
  unfold is_end in K. simpl in K. rewrite E in K. rewrite N.eqb_refl in K.
  assert (false = true -> False) by discriminate. apply H0. symmetry. apply K. apply in_map_iff. exists n. auto.
Qed.

(* the in-flight task (x, v) completes: [rest] are the other running tasks *)
Lemma step_generic s rest O log x v :
  let St := fun y => In y (ids_of rest) \/ y = x \/ In y (map fst O) in
  CL s St O ->
  (forall p w, In (p, w) O -> dval p w) -> dval x v ->
  (forall p, In p (map fst O) -> p = START \/ In p (map n_id g)) ->
  (x = START \/ In x (map n_id g)) ->
  NoDup (ids_of rest ++ x :: map fst O) ->
  (forall n i, In (n, i) rest ->
      In n g /\ n_id n <> END /\ n_preds n <> [] /\ dins (n_preds n) i /\
      (forall p, In p (n_preds n) -> In p (map fst O))) ->
  (forall n, In n g -> In (n_id n) (x :: map fst O) -> forall p, In p (n_preds n) -> In p (map fst O)) ->
  x <> END -> ~ In END (map fst O) ->
  NoDup (map fst log) ->
  (forall y i, In (y, i) log -> y <> END /\ exists n, In n g /\ n_id n = y /\ dins (n_preds n) i) ->
  (forall y, In y (map fst log) <-> (St y /\ y <> START)) ->
  match calc_next Dag g s [(x, v)] with
  | NReturn vE => exists nE, In nE g /\ n_id nE = END /\ n_preds nE <> [] /\ dins (n_preds nE) vE /\
                            (forall p, In p (n_preds nE) -> In p (x :: map fst O))
  | NTasks ts s' => RI s' (rest ++ ts) ((x, v) :: O) (log ++ log_of ts)
  end.
Proof.
  intros St C HO Hv Hdom Hxd Hnd' Hrun Hdone HxE HnoE Hlnd Hlin Hlst.
  assert (Hx : ~ In x (map fst O)).
  { apply NoDup_remove_2 in Hnd'. intros K. apply Hnd'. apply in_or_app. right; exact K. }
  assert (Hs : forall n, In n g -> St (n_id n) -> ~ In x (n_preds n)).
  { intros n Hin [K|[K|K]] Hp.
    - unfold ids_of in K. apply in_map_iff in K. destruct K as ([n' i] & E & K). simpl in E.
      destruct (Hrun _ _ K) as (Hin' & _ & _ & _ & Hpp).
      assert (n' = n) by (apply node_eq; auto). subst n'. apply Hx, Hpp, Hp.
    - apply Hx. apply (Hdone n Hin); [left; symmetry; exact K|exact Hp].
    - apply Hx. apply (Hdone n Hin); [right; exact K|exact Hp]. }
  pose proof (take_step s St O x v C Hx Hs HO Hv) as T. cbv zeta in T.
  unfold calc_next. simpl report_all. unfold take_ready.
  set (s1 := report g s (x, v)) in *. set (rs := filter (ready Dag s1) g) in *.
  destruct T as (Trs & Tcl & Tnr & Tnd).
  destruct (find is_end (map (fun n => (n, get_input s1 n)) rs)) as [[nE vE]|] eqn:F.
  - apply find_is_end_some in F. destruct F as (HnE & EE & ->).
    destruct (Trs nE HnE) as (Hin & _ & Hnn & Hp & Hd). exists nE. auto.
  - pose proof (find_is_end_none _ _ F) as HnoEnd.
    set (ts := map (fun n => (n, get_input s1 n)) rs).
    assert (Eids : ids_of ts = map n_id rs) by apply ids_of_tasks.
    assert (Est : forall y, started (rest ++ ts) ((x, v) :: O) y <-> (St y \/ In y (map n_id rs))).
    { intros y. unfold started, St. rewrite ids_of_app, Eids. simpl. rewrite in_app_iff.
      split; [intros [[K|K]|[K|K]]; auto|intros [[K|[K|K]]|K]; auto]. }
    assert (Hdisj : forall n, In n rs -> ~ St (n_id n)) by (intros n Hn; apply (Trs n Hn)).
    split.
    + eapply CL_iff; [|exact Tcl]. intros y. symmetry. apply Est.
    + intros n Hin Hns. apply Tnr; [exact Hin|]. intros K. apply Hns, Est, K.
    + intros p w [E|K]; [inversion E; subst; exact Hv|apply HO, K].
    + intros p [E|K]; [simpl in E; subst; exact Hxd|apply Hdom, K].
    + rewrite ids_of_app, Eids. simpl.
      apply (Permutation_NoDup (l := map n_id rs ++ (ids_of rest ++ x :: map fst O))).
      * rewrite <- app_assoc. rewrite app_assoc. rewrite (app_assoc (ids_of rest)).
        apply Permutation_app_tail. apply Permutation_app_comm.
      * apply NoDup_app_intro; [exact Tnd|exact Hnd'|].
        intros y Hy K. apply in_map_iff in Hy. destruct Hy as (n & <- & Hn).
        apply (Hdisj n Hn). unfold St. apply in_app_or in K. destruct K as [K|[K|K]]; auto.
    + intros n i Hni. apply in_app_or in Hni. destruct Hni as [K|K].
      * destruct (Hrun _ _ K) as (A1 & A2 & A3 & A4 & A5). repeat split; auto.
        intros p Hp. right. apply A5, Hp.
      * unfold ts in K. apply in_map_iff in K. destruct K as (n' & E & Hn). inversion E; subst.
        destruct (Trs n Hn) as (B1 & B2 & B3 & B4 & B5). repeat split; auto.
    + intros n Hin [K|K] p Hp; right; apply (Hdone n Hin); auto; [left; exact K|right; exact K].
    + intros [K|K]; [apply HxE; exact K|contradiction].
    + rewrite map_app, log_of_ids, Eids. apply NoDup_app_intro; [exact Hlnd|exact Tnd|].
      intros y Hy K. apply Hlst in Hy. destruct Hy as [Hy _].
      apply in_map_iff in K. destruct K as (n & <- & Hn). apply (Hdisj n Hn), Hy.
    + intros y i K. apply in_app_or in K. destruct K as [K|K]; [apply Hlin, K|].
      unfold log_of, ts in K. rewrite map_map in K. simpl in K. apply in_map_iff in K.
      destruct K as (n & E & Hn). inversion E; subst.
      destruct (Trs n Hn) as (B1 & B2 & B3 & B4 & B5). split; [apply HnoEnd, Hn|]. exists n. auto.
    + intros y. rewrite map_app, log_of_ids, Eids, in_app_iff, Est, Hlst. split.
      * intros [[K1 K2]|K]; [auto|]. split; [right; exact K|].
        intros E. subst y. apply Hstart. apply in_map_iff in K. destruct K as (n & E & Hn).
        apply in_map_iff. exists n. split; [exact E|apply (Trs n Hn)].
      * intros [[K|K] K2]; auto.
Qed.


Lemma start_ri :
  match start_next Dag g with
  | NReturn vE => exists nE, In nE g /\ n_id nE = END /\ n_preds nE <> [] /\ dins (n_preds nE) vE /\
                            (forall p, In p (n_preds nE) -> In p [START])
  | NTasks ts s => RI s ts [(START, input_val)] (log_of ts)
  end.
Proof.
  unfold start_next.
  pose proof (step_generic cinit [] [] [] START input_val) as H. cbv zeta in H. simpl in H.
  apply H; clear H.
  - split; intros n p Hin K; simpl.
    + split; reflexivity.
    + destruct (nmem p (n_preds n)); split; reflexivity.
  - tauto.
  - constructor.
  - tauto.
  - left; reflexivity.
  - repeat constructor. simpl. tauto.
  - tauto.
  - intros n Hin [K|[]] p Hp. apply Hstart. rewrite K. apply in_map, Hin.
  - discriminate.
  - tauto.
  - constructor.
  - tauto.
  - intros y. split; [tauto|]. intros [[[]|[K|[]]] K2]. congruence.
Qed.

(* what a run that returns a value has done *)
Definition done_spec (v : val) (log : exec_log) (left : list nid) : Prop :=
  exists nE (O : list (nid * val)), In nE g /\ n_id nE = END /\ n_preds nE <> [] /\ dins (n_preds nE) v /\
    (forall p, In p (n_preds nE) -> In p (map fst O)) /\
    (forall n, In n g -> In (n_id n) (map fst O) -> forall p, In p (n_preds n) -> In p (map fst O)) /\
    (forall y, In y left -> ~ In y (map fst O) /\ y <> END) /\
    NoDup (map fst log) /\
    (forall y i, In (y, i) log -> y <> END /\ exists n, In n g /\ n_id n = y /\ dins (n_preds n) i) /\
    (forall y, In y (map fst O) -> y <> START -> In y (map fst log)).

(* why a run fails: nothing is running any more, or the task the schedule picks fails, or a node
   whose state pre-handler fails has become ready (submit fails) *)
Definition fail_spec (pick : list (node * val) -> nat) : Prop :=
  (exists s O log, RI s [] O log /\ In START (map fst O)) \/
  (exists s running O log n i, RI s running O log /\ In START (map fst O) /\
     nth_error running (Nat.modulo (pick running) (List.length running)) = Some (n, i) /\
     failed (n, i) = true) \/
  (exists n, In n g /\ n_id n <> END /\ n_fail n = 4%N).

Lemma prefail_in s running O log ts :
  RI s (running ++ ts) O log -> existsb prefail ts = true ->
  exists n, In n g /\ n_id n <> END /\ n_fail n = 4%N.
Proof.
  intros R H. apply existsb_exists in H. destruct H as ([n i] & Hin & Hp).
  exists n. destruct (ri_run _ _ _ _ R n i (in_or_app _ _ _ (or_intror Hin))) as (A1 & A2 & _).
  split; [exact A1|]. split; [exact A2|].
  - unfold prefail in Hp. simpl in Hp. apply N.eqb_eq in Hp. exact Hp.
Qed.

Lemma ri_len s running O log : RI s running O log -> List.length O <= List.length g + 1.
Proof.
  intros R. rewrite <- (map_length fst O). rewrite <- (map_length n_id g).
  replace (List.length (map n_id g) + 1) with (List.length (START :: map n_id g)) by (simpl; lia).
  apply NoDup_incl_length.
  - pose proof (ri_nd _ _ _ _ R) as K. clear -K. induction (ids_of running); simpl in K; [exact K|].
    inversion K; auto.
  - intros p Hp. destruct (ri_dom _ _ _ _ R p Hp) as [->|K]; [left; reflexivity|right; exact K].
Qed.

Lemma run_eager_spec pick : forall fuel s running O log out log' left,
  RI s running O log -> In START (map fst O) ->
  run_eager pick g fuel s running log = (out, log', left) ->
  match out with
  | ODone v => done_spec v log' left
  | OFail => fail_spec pick
  | OFuel => fuel + List.length O <= List.length g + 1
  end.
Proof.
  induction fuel as [|f IH]; intros s running O log out log' left R HS E; simpl in E.
  - inversion E; subst. simpl. eapply ri_len; eassumption.
  - set (i := Nat.modulo (pick running) (List.length running)) in *.
    destruct (nth_error running i) as [[n inp]|] eqn:En.
    + assert (Hin : In (n, inp) running) by (eapply nth_error_In; eassumption).
      destruct (ri_run _ _ _ _ R n inp Hin) as (A1 & A2 & A3 & A4 & A5).
      destruct (failed (n, inp)) eqn:Ef.
      * assert (out = OFail) by (inversion E; auto). subst out. right. left.
        exists s, running, O, log, n, inp. auto.
      * assert (Hf : n_fail n = 0%N).
        { unfold failed in Ef. simpl in Ef. apply negb_false_iff in Ef. apply N.eqb_eq in Ef. exact Ef. }
        set (rest := remove_nth i running) in *.
        pose proof (nth_error_remove_perm running i _ En) as P. fold rest in P.
        assert (Pids : Permutation (ids_of running) (n_id n :: ids_of rest)).
        { unfold ids_of. apply (Permutation_map (fun t : node * val => n_id (fst t))) in P. exact P. }
        assert (Est : forall y, started running O y <->
                                (In y (ids_of rest) \/ y = n_id n \/ In y (map fst O))).
        { intros y. unfold started. split.
          - intros [K|K]; [|auto]. apply (Permutation_in _ Pids) in K. destruct K as [K|K]; auto.
          - intros [K|[K|K]]; [left|left|right; exact K].
            + apply (Permutation_in _ (Permutation_sym Pids)). right; exact K.
            + apply (Permutation_in _ (Permutation_sym Pids)). left; auto. }
        pose proof (step_generic s rest O log (n_id n) (node_out (n_id n) inp)) as G. cbv zeta in G.
        assert (Hnd2 : NoDup (ids_of rest ++ n_id n :: map fst O)).
        { apply (Permutation_NoDup (l := ids_of running ++ map fst O)); [|apply (ri_nd _ _ _ _ R)].
          eapply perm_trans; [apply Permutation_app_tail, Pids|]. simpl. apply Permutation_middle. }
        assert (Hx : ~ In (n_id n) (map fst O)).
        { apply NoDup_remove_2 in Hnd2. intros K. apply Hnd2. apply in_or_app. right; exact K. }
        unfold run_task in E. simpl fst in E. simpl snd in E.
        specialize (G (CL_iff _ _ _ _ Est (ri_cl _ _ _ _ R)) (ri_O _ _ _ _ R)
                      (dv_node n inp A1 Hf A3 A4) (ri_dom _ _ _ _ R)
                      (or_intror (in_map n_id _ _ A1)) Hnd2).
        assert (Hrun : forall n0 i0, In (n0, i0) rest ->
                 In n0 g /\ n_id n0 <> END /\ n_preds n0 <> [] /\ dins (n_preds n0) i0 /\
                 (forall p, In p (n_preds n0) -> In p (map fst O))).
        { intros n0 i0 K. apply (ri_run _ _ _ _ R). apply (Permutation_in _ (Permutation_sym P)). right; exact K. }
        assert (Hdone : forall n0, In n0 g -> In (n_id n0) (n_id n :: map fst O) ->
                 forall p, In p (n_preds n0) -> In p (map fst O)).
        { intros n0 Hin0 [K|K] p Hp.
          - assert (n0 = n) by (apply node_eq; auto). subst n0. apply A5, Hp.
          - apply (ri_done _ _ _ _ R n0 Hin0 K p Hp). }
        specialize (G Hrun Hdone A2 (ri_noend _ _ _ _ R) (ri_log_nd _ _ _ _ R) (ri_log_in _ _ _ _ R)).
        assert (Hlst : forall y, In y (map fst log) <->
                 ((In y (ids_of rest) \/ y = n_id n \/ In y (map fst O)) /\ y <> START)).
        { intros y. rewrite (ri_log_st _ _ _ _ R), Est. reflexivity. }
        specialize (G Hlst).
        destruct (calc_next Dag g s [(n_id n, node_out (n_id n) inp)]) as [vE|ts s'] eqn:Ec.
        -- assert (out = ODone vE /\ log' = log /\ left = ids_of rest) by (inversion E; auto).
           destruct H as (-> & -> & ->). destruct G as (nE & B1 & B2 & B2' & B3 & B4).
           exists nE, ((n_id n, node_out (n_id n) inp) :: O).
           split; [exact B1|]. split; [exact B2|]. split; [exact B2'|]. split; [exact B3|]. split; [exact B4|].
           split; [|split; [|split; [|split]]].
           ++ intros n0 Hin0 K p Hp. right. apply (Hdone n0 Hin0 K p Hp).
           ++ intros y Hy. split.
              ** intros K.
                 clear -Hnd2 Hy K. induction (ids_of rest) as [|a r IHr]; simpl in *; [contradiction|].
                 inversion Hnd2; subst. destruct Hy as [->|Hy]; [|auto].
                 apply H1. apply in_or_app. right. exact K.
              ** unfold ids_of in Hy. apply in_map_iff in Hy. destruct Hy as ([n0 i0] & <- & K).
                 apply (Hrun _ _ K).
           ++ apply (ri_log_nd _ _ _ _ R).
           ++ apply (ri_log_in _ _ _ _ R).
           ++ intros y Hy Hne. apply Hlst. split; [|exact Hne]. destruct Hy as [K|K]; auto.
        -- destruct (existsb prefail ts) eqn:Epf.
           ++ assert (out = OFail) by (inversion E; auto). subst out. right. right.
              eapply prefail_in; eassumption.
           ++ specialize (IH s' (rest ++ ts) ((n_id n, node_out (n_id n) inp) :: O) (log ++ log_of ts)
                          out log' left G (or_intror HS) E).
              destruct out; auto. simpl in IH. lia.
    + assert (out = OFail) by (inversion E; auto). subst out. left. exists s, O, log. split; [|exact HS].
      apply nth_error_None in En.
      destruct running as [|t r]; [exact R|]. exfalso.
      assert (i < List.length (t :: r)) by (apply Nat.mod_upper_bound; simpl; lia). lia.
Qed.


(* whatever the outcome: no node is started twice, and every started node got the input its
   predecessors determine *)
Lemma run_eager_log pick : forall fuel s running O log out log' left,
  RI s running O log ->
  run_eager pick g fuel s running log = (out, log', left) ->
  NoDup (map fst log') /\
  (forall y i, In (y, i) log' -> y <> END /\ exists n, In n g /\ n_id n = y /\ dins (n_preds n) i).
Proof.
  induction fuel as [|f IH]; intros s running O log out log' left R E; simpl in E.
  - inversion E; subst. split; [apply (ri_log_nd _ _ _ _ R)|apply (ri_log_in _ _ _ _ R)].
  - set (i := Nat.modulo (pick running) (List.length running)) in *.
    destruct (nth_error running i) as [[n inp]|] eqn:En.
    + assert (Hin : In (n, inp) running) by (eapply nth_error_In; eassumption).
      destruct (ri_run _ _ _ _ R n inp Hin) as (A1 & A2 & A3 & A4 & A5).
      destruct (failed (n, inp)) eqn:Ef.
      * inversion E; subst. split; [apply (ri_log_nd _ _ _ _ R)|apply (ri_log_in _ _ _ _ R)].
      * assert (Hf : n_fail n = 0%N).
        { unfold failed in Ef. simpl in Ef. apply negb_false_iff in Ef. apply N.eqb_eq in Ef. exact Ef. }
        set (rest := remove_nth i running) in *.
        pose proof (nth_error_remove_perm running i _ En) as P. fold rest in P.
        assert (Pids : Permutation (ids_of running) (n_id n :: ids_of rest)).
        { unfold ids_of. apply (Permutation_map (fun t : node * val => n_id (fst t))) in P. exact P. }
        assert (Est : forall y, started running O y <->
                                (In y (ids_of rest) \/ y = n_id n \/ In y (map fst O))).
        { intros y. unfold started. split.
          - intros [K|K]; [|auto]. apply (Permutation_in _ Pids) in K. destruct K as [K|K]; auto.
          - intros [K|[K|K]]; [left|left|right; exact K].
            + apply (Permutation_in _ (Permutation_sym Pids)). right; exact K.
            + apply (Permutation_in _ (Permutation_sym Pids)). left; auto. }
        pose proof (step_generic s rest O log (n_id n) (node_out (n_id n) inp)) as G. cbv zeta in G.
        assert (Hnd2 : NoDup (ids_of rest ++ n_id n :: map fst O)).
        { apply (Permutation_NoDup (l := ids_of running ++ map fst O)); [|apply (ri_nd _ _ _ _ R)].
          eapply perm_trans; [apply Permutation_app_tail, Pids|]. simpl. apply Permutation_middle. }
        unfold run_task in E. simpl fst in E. simpl snd in E.
        specialize (G (CL_iff _ _ _ _ Est (ri_cl _ _ _ _ R)) (ri_O _ _ _ _ R)
                      (dv_node n inp A1 Hf A3 A4) (ri_dom _ _ _ _ R)
                      (or_intror (in_map n_id _ _ A1)) Hnd2).
        assert (Hrun : forall n0 i0, In (n0, i0) rest ->
                 In n0 g /\ n_id n0 <> END /\ n_preds n0 <> [] /\ dins (n_preds n0) i0 /\
                 (forall p, In p (n_preds n0) -> In p (map fst O))).
        { intros n0 i0 K. apply (ri_run _ _ _ _ R). apply (Permutation_in _ (Permutation_sym P)). right; exact K. }
        assert (Hdone : forall n0, In n0 g -> In (n_id n0) (n_id n :: map fst O) ->
                 forall p, In p (n_preds n0) -> In p (map fst O)).
        { intros n0 Hin0 [K|K] p Hp.
          - assert (n0 = n) by (apply node_eq; auto). subst n0. apply A5, Hp.
          - apply (ri_done _ _ _ _ R n0 Hin0 K p Hp). }
        specialize (G Hrun Hdone A2 (ri_noend _ _ _ _ R) (ri_log_nd _ _ _ _ R) (ri_log_in _ _ _ _ R)).
        assert (Hlst : forall y, In y (map fst log) <->
                 ((In y (ids_of rest) \/ y = n_id n \/ In y (map fst O)) /\ y <> START)).
        { intros y. rewrite (ri_log_st _ _ _ _ R), Est. reflexivity. }
        specialize (G Hlst).
        destruct (calc_next Dag g s [(n_id n, node_out (n_id n) inp)]) as [vE|ts s'] eqn:Ec.
        -- inversion E; subst. split; [apply (ri_log_nd _ _ _ _ R)|apply (ri_log_in _ _ _ _ R)].
        -- destruct (existsb prefail ts) eqn:Epf.
           ++ inversion E; subst. split; [apply (ri_log_nd _ _ _ _ R)|apply (ri_log_in _ _ _ _ R)].
           ++ exact (IH _ _ _ _ _ _ _ G E).
    + inversion E; subst. split; [apply (ri_log_nd _ _ _ _ R)|apply (ri_log_in _ _ _ _ R)].
Qed.

Lemma eager_spec pick fuel out log left :
  eager pick g fuel = (out, log, left) ->
  match out with
  | ODone v => done_spec v log left
  | OFail => fail_spec pick
  | OFuel => fuel <= List.length g
  end.
Proof.
  unfold eager. pose proof start_ri as S0. destruct (start_next Dag g) as [vE|ts s].
  - intros E. inversion E; subst. destruct S0 as (nE & B1 & B2 & B2' & B3 & B4).
    exists nE, [(START, input_val)].
    split; [exact B1|]. split; [exact B2|]. split; [exact B2'|]. split; [exact B3|]. split; [exact B4|].
    split; [|split; [|split; [|split]]].
    + intros n Hin [K|[]] p Hp. exfalso. apply Hstart. simpl in K. rewrite K. apply in_map, Hin.
    + intros y [].
    + constructor.
    + intros y i [].
    + intros y [K|[]] Hne. simpl in K. congruence.
  - destruct (existsb prefail ts) eqn:Epf.
    + intros E. inversion E; subst. right. right. apply (prefail_in s [] _ _ ts S0 Epf).
    + intros E. pose proof (run_eager_spec pick fuel s ts [(START, input_val)] (log_of ts) out log left S0
                            (or_introl eq_refl) E) as K.
      destruct out; auto. simpl in K. lia.
Qed.

(* ---- when nothing but failing tasks is running, every node that can deliver a value has
        delivered it *)
Lemma quiescent_all s running O log :
  RI s running O log -> In START (map fst O) ->
  (forall t, In t running -> failed t = true) ->
  (forall x v, dval x v -> In x (map fst O)) /\
  (forall ps i, dins ps i -> forall p, In p ps -> In p (map fst O)).
Proof.
  intros R HS Hall. apply dval_dins_ind.
  - exact HS.
  - intros n i Hin Hf Hp Hd IH.
    destruct (nmem (n_id n) (map fst O)) eqn:E; [apply nmem_In, E|]. exfalso.
    apply nmem_false in E.
    assert (Hns : ~ started running O (n_id n)).
    { intros [K|K]; [|contradiction]. unfold ids_of in K. apply in_map_iff in K.
      destruct K as ([n' i'] & Eid & K). simpl in Eid.
      destruct (ri_run _ _ _ _ R _ _ K) as (Hin' & _).
      assert (n' = n) by (apply node_eq; auto). subst n'.
      pose proof (Hall _ K) as F. unfold failed in F. simpl in F. rewrite Hf in F. discriminate. }
    pose proof (ri_nr _ _ _ _ R n Hin Hns) as K.
    rewrite (ready_un _ _ _ _ (ri_cl _ _ _ _ R) Hin Hns) in K.
    assert (K2 : forallb (fun p => nmem p (map fst O)) (n_preds n) = true).
    { apply forallb_forall. intros p Hpp. apply nmem_In, IH, Hpp. }
    rewrite K2 in K. destruct (n_preds n); [congruence|discriminate].
  - intros p [].
  - intros p ps v i Hv IHv Hi IHi q [<-|Hq]; auto.
Qed.

Lemma live_end_not_quiescent s running O log nE v :
  RI s running O log -> In START (map fst O) ->
  (forall t, In t running -> failed t = true) ->
  In nE g -> n_id nE = END -> n_preds nE <> [] -> dins (n_preds nE) v -> False.
Proof.
  intros R HS Hall Hin EE Hnn Hd.
  destruct (quiescent_all s running O log R HS Hall) as [_ A]. specialize (A _ _ Hd).
  assert (Hns : ~ started running O (n_id nE)).
  { intros [K|K].
    - unfold ids_of in K. apply in_map_iff in K. destruct K as ([n' i'] & Eid & K). simpl in Eid.
      destruct (ri_run _ _ _ _ R _ _ K) as (_ & Hne & _). congruence.
    - rewrite EE in K. apply (ri_noend _ _ _ _ R K). }
  pose proof (ri_nr _ _ _ _ R nE Hin Hns) as K.
  rewrite (ready_un _ _ _ _ (ri_cl _ _ _ _ R) Hin Hns) in K.
  assert (K2 : forallb (fun p => nmem p (map fst O)) (n_preds nE) = true).
  { apply forallb_forall. intros p Hpp. apply nmem_In, A, Hpp. }
  rewrite K2 in K. destruct (n_preds nE); [congruence|discriminate].
Qed.

(* ---- the nodes that feed END *)
Inductive anc : nid -> Prop :=
| anc_end nE p : In nE g -> n_id nE = END -> In p (n_preds nE) -> anc p
| anc_step n p : In n g -> anc (n_id n) -> In p (n_preds n) -> anc p.

Lemma ancestors_sound x : In x (ancestors g) -> x = END \/ anc x.
Proof.
  unfold ancestors.
  assert (G : forall fuel acc, (forall y, In y acc -> y = END \/ anc y) ->
                               forall y, In y (anc_iter g fuel acc) -> y = END \/ anc y).
  { induction fuel as [|f IH]; simpl; intros acc P; [exact P|]. apply IH.
    set (more := flat_map (fun n => if nmem (n_id n) acc then n_preds n else []) g).
    assert (Pm : forall y, In y more -> y = END \/ anc y).
    { intros y Hy. unfold more in Hy. apply in_flat_map in Hy. destruct Hy as (n & Hin & Hy).
      destruct (nmem (n_id n) acc) eqn:E; [|contradiction]. apply nmem_In in E.
      right. destruct (P _ E) as [K|K]; [eapply anc_end|eapply anc_step]; eassumption. }
    clearbody more. revert acc P. induction more as [|m more IHm]; simpl; intros acc P; [exact P|].
    apply IHm; [intros y Hy; apply Pm; right; exact Hy|].
    destruct (nmem m acc); [exact P|]. intros y [<-|Hy]; [apply Pm; left; reflexivity|apply P, Hy]. }
  apply G. intros y [<-|[]]. left; reflexivity.
Qed.

Lemma anc_dom (O : list (nid * val)) nE :
  In nE g -> n_id nE = END ->
  (forall p, In p (n_preds nE) -> In p (map fst O)) ->
  (forall n, In n g -> In (n_id n) (map fst O) -> forall p, In p (n_preds n) -> In p (map fst O)) ->
  forall x, anc x -> In x (map fst O).
Proof.
  intros Hin EE HE Hcl x A. induction A as [nE' p Hin' EE' Hp|n p Hinn _ IH Hp].
  - assert (nE' = nE) by (apply node_eq; auto; congruence). subst. apply HE, Hp.
  - apply (Hcl n Hinn IH p Hp).
Qed.

Lemma dins_In ps i : dins ps i -> forall p, In p ps -> exists w, dval p w.
Proof. induction 1 as [|p ps v i Hv Hi IH]; intros q []; subst; eauto. Qed.

Lemma dval_node_inv n w : In n g -> dval (n_id n) w ->
  n_fail n = 0%N /\ exists i, dins (n_preds n) i.
Proof.
  intros Hin H. inversion H as [E|n' i Hin' Hf Hp Hd E].
  - exfalso. apply Hstart. rewrite E. apply in_map, Hin.
  - assert (n' = n) by (apply node_eq; auto). subst. eauto.
Qed.

Lemma anc_dval nE v : In nE g -> n_id nE = END -> dins (n_preds nE) v ->
  forall x, anc x -> exists w, dval x w.
Proof.
  intros Hin EE Hd x A. induction A as [nE' p Hin' EE' Hp|n p Hinn _ IH Hp].
  - assert (nE' = nE) by (apply node_eq; auto; congruence). subst. eapply dins_In; eassumption.
  - destruct IH as (w & Hw). destruct (dval_node_inv n w Hinn Hw) as (_ & i & Hi).
    eapply dins_In; eassumption.
Qed.

(* ---- two runs that deliver a value deliver the same one, fed by the same executions *)
Lemma feeding_incl v1 l1 r1 v2 l2 r2 :
  done_spec v1 l1 r1 -> done_spec v2 l2 r2 ->
  forall e, In e (feeding g l1) -> In e (feeding g l2).
Proof.
  intros (nE1 & O1 & A1 & A2 & A2' & A3 & A4 & A5 & A6 & A7 & A8 & A9)
         (nE2 & O2 & B1 & B2 & B2' & B3 & B4 & B5 & B6 & B7 & B8 & B9) [y i] He.
  unfold feeding in *. apply filter_In in He. destruct He as [Hl Ha]. simpl in Ha.
  apply filter_In. split; [|exact Ha]. apply nmem_In in Ha.
  destruct (A8 _ _ Hl) as (HyE & n & Hin & Eid & Hd).
  destruct (ancestors_sound _ Ha) as [K|K]; [contradiction|].
  assert (HyO : In y (map fst O2)) by (apply (anc_dom O2 nE2 B1 B2 B4 B5 y K)).
  assert (HyS : y <> START).
  { intros K2. apply Hstart. rewrite <- K2, <- Eid. apply in_map, Hin. }
  pose proof (B9 y HyO HyS) as Hy2. apply in_map_iff in Hy2. destruct Hy2 as ([y' i2] & Ey & Hl2).
  simpl in Ey. subst y'. destruct (B8 _ _ Hl2) as (_ & n2 & Hin2 & Eid2 & Hd2).
  assert (n2 = n) by (apply node_eq; auto; congruence). subst n2.
  destruct dval_fun as [_ F]. rewrite (F _ _ Hd _ Hd2). exact Hl2.
Qed.

Lemma done_unique v1 l1 r1 v2 l2 r2 :
  done_spec v1 l1 r1 -> done_spec v2 l2 r2 ->
  v1 = v2 /\ Permutation (feeding g l1) (feeding g l2).
Proof.
  intros D1 D2. split.
  - destruct D1 as (nE1 & O1 & A1 & A2 & A2' & A3 & _). destruct D2 as (nE2 & O2 & B1 & B2 & B2' & B3 & _).
    assert (nE2 = nE1) by (apply node_eq; auto; congruence). subst.
    destruct dval_fun as [_ F]. apply (F _ _ A3 _ B3).
  - apply NoDup_Permutation.
    + apply NoDup_filter. destruct D1 as (? & ? & ? & ? & ? & ? & ? & ? & ? & K & _).
      eapply NoDup_map_inv; exact K.
    + apply NoDup_filter. destruct D2 as (? & ? & ? & ? & ? & ? & ? & ? & ? & K & _).
      eapply NoDup_map_inv; exact K.
    + intros e. split; eapply feeding_incl; eassumption.
Qed.

(* ---- a run that delivers a value has collected every node that feeds END *)
Lemma done_left v l r : done_spec v l r -> forall x, In x r -> ~ In x (ancestors g).
Proof.
  intros (nE & O & A1 & A2 & A2' & A3 & A4 & A5 & A6 & _) x Hx Ha.
  destruct (A6 x Hx) as [K1 K2]. destruct (ancestors_sound _ Ha) as [K|K]; [contradiction|].
  apply K1. apply (anc_dom O nE A1 A2 A4 A5 x K).
Qed.

(* ---- value and failure exclude each other when every failing node feeds END *)
Definition failing_feed_end : Prop :=
  forall n, In n g -> n_fail n <> 0%N -> In (n_id n) (ancestors g).

Lemma done_fail_absurd pick v l r : failing_feed_end -> done_spec v l r -> fail_spec pick -> False.
Proof.
  intros H (nE & O & A1 & A2 & A2' & A3 & _)
         [(s & O' & log & R & HS)|[(s & running & O' & log & n & i & R & HS & En & Ef)|(n & B1 & B2 & B4)]].
  - eapply (live_end_not_quiescent s [] O' log); try eassumption. intros t [].
  - assert (Hin : In (n, i) running) by (eapply nth_error_In; eassumption).
    destruct (ri_run _ _ _ _ R n i Hin) as (B1 & B2 & _).
    assert (B3 : n_fail n <> 0%N).
    { unfold failed in Ef. simpl in Ef. intros K. rewrite K in Ef. discriminate. }
    destruct (ancestors_sound _ (H n B1 B3)) as [K|K]; [contradiction|].
    destruct (anc_dval nE v A1 A2 A3 _ K) as (w & Hw).
    destruct (dval_node_inv n w B1 Hw) as [K2 _]. contradiction.
  - assert (B3 : n_fail n <> 0%N) by (rewrite B4; discriminate).
    destruct (ancestors_sound _ (H n B1 B3)) as [K|K]; [contradiction|].
    destruct (anc_dval nE v A1 A2 A3 _ K) as (w & Hw).
    destruct (dval_node_inv n w B1 Hw) as [K2 _]. contradiction.
Qed.

(* every node whose state pre-handler fails feeds END (weaker than failing_feed_end) *)
Definition prefail_feed_end : Prop :=
  forall n, In n g -> n_fail n = 4%N -> In (n_id n) (ancestors g).

(* ---- the schedule that avoids failing tasks delivers the value whenever some schedule does *)
Lemma pick_ok_nth : forall running t,
  nth_error running (Nat.modulo (pick_ok running) (List.length running)) = Some t ->
  failed t = true -> forall t', In t' running -> failed t' = true.
Proof.
  intros running t En Ef.
  assert (G : forall l, (pick_ok l < List.length l /\ exists u, nth_error l (pick_ok l) = Some u /\ failed u = false)
                        \/ (pick_ok l = List.length l /\ forall t', In t' l -> failed t' = true)).
  { induction l as [|a l IH]; simpl.
    - right. split; [reflexivity|tauto].
    - destruct (failed a) eqn:Fa.
      + destruct IH as [(L & u & Eu & Fu)|(L & A)].
        * left. split; [lia|]. exists u. simpl. auto.
        * right. split; [lia|]. intros t' [<-|K]; auto.
      + left. split; [lia|]. exists a. simpl. auto. }
  destruct (G running) as [(L & u & Eu & Fu)|(L & A)]; [|exact A].
  rewrite Nat.mod_small in En by exact L. rewrite Eu in En. inversion En; subst. congruence.
Qed.

Lemma done_ok_fail_absurd v l r : prefail_feed_end -> done_spec v l r -> fail_spec pick_ok -> False.
Proof.
  intros H (nE & O & A1 & A2 & A2' & A3 & _)
         [(s & O' & log & R & HS)|[(s & running & O' & log & n & i & R & HS & En & Ef)|(n & B1 & B2 & B4)]].
  - eapply (live_end_not_quiescent s [] O' log); try eassumption. intros t [].
  - eapply (live_end_not_quiescent s running O' log); try eassumption.
    eapply pick_ok_nth; eassumption.
  - destruct (ancestors_sound _ (H n B1 B4)) as [K|K]; [contradiction|].
    destruct (anc_dval nE v A1 A2 A3 _ K) as (w & Hw).
    destruct (dval_node_inv n w B1 Hw) as [K2 _]. rewrite B4 in K2. discriminate.
Qed.

End Eager.

(* ================================================================== the theorems *)

Lemma eager_value_unique g pick1 pick2 f1 f2 v1 v2 l1 l2 r1 r2 :
  NoDup (map n_id g) -> ~ In START (map n_id g) ->
  eager pick1 g f1 = (ODone v1, l1, r1) -> eager pick2 g f2 = (ODone v2, l2, r2) ->
  v1 = v2 /\ Permutation (feeding g l1) (feeding g l2).
Proof.
  intros Hnd Hs E1 E2.
  pose proof (eager_spec g Hnd Hs pick1 f1 _ _ _ E1) as D1.
  pose proof (eager_spec g Hnd Hs pick2 f2 _ _ _ E2) as D2.
  simpl in D1, D2. exact (done_unique g Hnd Hs _ _ _ _ _ _ D1 D2).
Qed.

Lemma eager_fuel_enough g pick f :
  NoDup (map n_id g) -> ~ In START (map n_id g) -> List.length g < f ->
  fst (fst (eager pick g f)) <> OFuel.
Proof.
  intros Hnd Hs Hf E. destruct (eager pick g f) as [[out log] left] eqn:Ee. simpl in E. subst out.
  pose proof (eager_spec g Hnd Hs pick f _ _ _ Ee) as K. simpl in K. lia.
Qed.

Lemma eager_done_ancestors_finished g pick f v log left :
  NoDup (map n_id g) -> ~ In START (map n_id g) ->
  eager pick g f = (ODone v, log, left) -> forall x, In x left -> ~ In x (ancestors g).
Proof.
  intros Hnd Hs E. pose proof (eager_spec g Hnd Hs pick f _ _ _ E) as D. simpl in D.
  exact (done_left g Hnd _ _ _ D).
Qed.

Lemma eager_confluent g pick1 pick2 f1 f2 :
  NoDup (map n_id g) -> ~ In START (map n_id g) -> failing_feed_end g ->
  List.length g < f1 -> List.length g < f2 ->
  fst (fst (eager pick1 g f1)) = fst (fst (eager pick2 g f2)) /\
  (forall v, fst (fst (eager pick1 g f1)) = ODone v ->
     Permutation (feeding g (snd (fst (eager pick1 g f1)))) (feeding g (snd (fst (eager pick2 g f2))))).
Proof.
  intros Hnd Hs Hff H1 H2.
  pose proof (eager_fuel_enough g pick1 f1 Hnd Hs H1) as N1.
  pose proof (eager_fuel_enough g pick2 f2 Hnd Hs H2) as N2.
  destruct (eager pick1 g f1) as [[o1 l1] r1] eqn:E1. destruct (eager pick2 g f2) as [[o2 l2] r2] eqn:E2.
  simpl in *.
  pose proof (eager_spec g Hnd Hs pick1 f1 _ _ _ E1) as D1.
  pose proof (eager_spec g Hnd Hs pick2 f2 _ _ _ E2) as D2.
  destruct o1 as [v1| |], o2 as [v2| |]; try congruence.
  - destruct (done_unique g Hnd Hs _ _ _ _ _ _ D1 D2) as [-> P]. split; [reflexivity|intros _ _; exact P].
  - exfalso. exact (done_fail_absurd g Hnd Hs _ _ _ _ Hff D1 D2).
  - exfalso. exact (done_fail_absurd g Hnd Hs _ _ _ _ Hff D2 D1).
  - split; [reflexivity|discriminate].
Qed.

Lemma eager_ok_complete g pick f fuel v l r :
  NoDup (map n_id g) -> ~ In START (map n_id g) -> prefail_feed_end g ->
  eager pick g f = (ODone v, l, r) -> List.length g < fuel ->
  exists l' r', eager pick_ok g fuel = (ODone v, l', r') /\ Permutation (feeding g l) (feeding g l').
Proof.
  intros Hnd Hs Hpf E Hf.
  pose proof (eager_spec g Hnd Hs pick f _ _ _ E) as D. simpl in D.
  pose proof (eager_fuel_enough g pick_ok fuel Hnd Hs Hf) as N.
  destruct (eager pick_ok g fuel) as [[o l'] r'] eqn:E2. simpl in N.
  pose proof (eager_spec g Hnd Hs pick_ok fuel _ _ _ E2) as D2.
  destruct o as [v'| |]; [| |congruence].
  - destruct (done_unique g Hnd Hs _ _ _ _ _ _ D D2) as [-> P]. eauto.
  - exfalso. exact (done_ok_fail_absurd g Hnd Hs _ _ _ Hpf D D2).
Qed.

Lemma eager_starts_each_node_once g pick f out log left :
  NoDup (map n_id g) -> ~ In START (map n_id g) ->
  eager pick g f = (out, log, left) ->
  NoDup (map fst log) /\ (forall y i, In (y, i) log -> y <> END /\ In y (map n_id g)).
Proof.
  intros Hnd Hs. unfold eager. pose proof (start_ri g Hnd Hs) as S0.
  destruct (start_next Dag g) as [vE|ts s].
  - intros E. inversion E; subst. split; [constructor|intros y i []].
  - destruct (existsb prefail ts); [intros E; inversion E; subst; split; [constructor|intros y i []]|].
    intros E. destruct (run_eager_log g Hnd Hs pick f s ts _ _ _ _ _ S0 E) as [A B].
    split; [exact A|]. intros y i K. destruct (B y i K) as (K1 & n & K2 & K3 & _).
    split; [exact K1|]. rewrite <- K3. apply in_map, K2.
Qed.

(* for EVERY graph (failing nodes anywhere): two schedules agree on the outcome, or one of them fails -
   never two different values, never a run that does not end; what F-C03c leaves open is exactly
   "a value under one schedule, the failure of a node that does not feed END under another" *)
Lemma eager_outcome_dichotomy g pick1 pick2 f1 f2 :
  NoDup (map n_id g) -> ~ In START (map n_id g) ->
  List.length g < f1 -> List.length g < f2 ->
  fst (fst (eager pick1 g f1)) = fst (fst (eager pick2 g f2)) \/
  fst (fst (eager pick1 g f1)) = OFail \/ fst (fst (eager pick2 g f2)) = OFail.
Proof.
  intros Hnd Hs H1 H2.
  pose proof (eager_fuel_enough g pick1 f1 Hnd Hs H1) as N1.
  pose proof (eager_fuel_enough g pick2 f2 Hnd Hs H2) as N2.
  destruct (eager pick1 g f1) as [[o1 l1] r1] eqn:E1. destruct (eager pick2 g f2) as [[o2 l2] r2] eqn:E2.
  simpl in *.
  destruct o1 as [v1| |], o2 as [v2| |]; try congruence; auto.
  left. destruct (eager_value_unique g pick1 pick2 f1 f2 v1 v2 l1 l2 r1 r2 Hnd Hs E1 E2) as [-> _]. reflexivity.
Qed.
