(* Proofs/FieldMapClean.v — soundness of the decision procedure [clean_b] of Model/FieldMapClean.v:
   if it answers true on a value, the value satisfies the invariant [clean] of Proofs/FieldMapGetPut.v
   along the target paths, hence EVERY path that overlaps no target reads the zero value of its static
   type (clean_read_zero) — the second conclusion of mapped_get_put, which the correspondence thereby
   checks exhaustively on the implementation's Invoke result instead of on probe paths. *)
From Eino Require Import Base.Util Base.FMUniverse Model.FieldMap Model.FieldMapClean
  Proofs.FieldMapOverlap Proofs.FieldMapGetPut Proofs.FieldMapRun.

Lemma psub_sub : forall f W, psub f W = sub f W.
Proof.
  intros f W. induction W as [|[|g r] W IH]; simpl; [reflexivity|exact IH|].
  destruct (N.eqb g f); [rewrite IH|]; auto.
Qed.

Lemma is_zero_b_sound : forall t v, is_zero_b t v = true -> v = zero t.
Proof.
  intros t v H. destruct t, v; simpl in H; try discriminate; simpl.
  - apply Z.eqb_eq in H. subst. reflexivity.
  - apply String.eqb_eq in H. subst. reflexivity.
  - reflexivity.
  - destruct fs; [|discriminate]. apply N.eqb_eq in H. subst. reflexivity.
  - destruct o; [discriminate|]. apply ty_eqb_eq in H. subst. reflexivity.
  - destruct o; [discriminate|]. apply andb_true_iff in H. destruct H as [H1 H2].
    apply Bool.eqb_prop in H1. apply ty_eqb_eq in H2. subst. reflexivity.
Qed.

Lemma has_nil_false : forall W, has_nil W = false -> ~ In [] W.
Proof.
  intros W H Hin. unfold has_nil in H.
  assert (existsb is_nil_path W = true) by (apply existsb_exists; exists []; split; [exact Hin|reflexivity]).
  congruence.
Qed.

Lemma has_nil_true : forall W, has_nil W = true -> In [] W.
Proof.
  intros W H. apply existsb_exists in H. destruct H as [p [Hin Hp]]. destruct p; [exact Hin|discriminate].
Qed.

Lemma nlist_get_In : forall {A} k (l : list (N * A)) a, nlist_get k l = Some a -> In (k, a) l.
Proof.
  intros A k l a. induction l as [|[k' a'] l IH]; simpl; [discriminate|].
  destruct (N.eqb_spec k k') as [->|Hne]; intro H; [inversion H; left; reflexivity | right; auto].
Qed.

Lemma clean_b_step : forall fuel env t v W, W <> [] ->
  clean_b (S fuel) env t v W =
  if has_nil W then true else
    let fields m fs :=
      match nlist_get m env with
      | Some fds => forallb (fun fd => let '(f, (ex, ft)) := fd in
                                       if ex : bool then clean_b fuel env ft (field_of ft (aget f fs)) (psub f W) else true) fds
      | None => true
      end in
    let entries e es :=
      forallb (fun kx => let '(k, x) := kx in
                         match psub k W with [] => false | _ => clean_b fuel env e x (psub k W) end) es
      && heads_present W es in
    match t, v with
    | TStruct m, VStruct m' fs => N.eqb m m' && fields m fs
    | TPtr (TStruct m), VPtr (TStruct m') (Some (VStruct m'' fs)) => N.eqb m m' && N.eqb m m'' && fields m fs
    | TMap true e, VMap true e' (Some es) => ty_eqb e e' && entries e es
    | TAny, VMap true TAny (Some es) => entries TAny es
    | _, _ => false
    end.
Proof. intros fuel env t v [|p W'] H; [contradiction|reflexivity]. Qed.

Theorem clean_b_sound : forall fuel env t v W, clean_b fuel env t v W = true -> clean env t v W.
Proof.
  induction fuel as [|fuel IH]; intros env t v W H.
  - destruct W as [|p W']; cbn [clean_b] in H.
    + rewrite (is_zero_b_sound _ _ H). constructor.
    + destruct (has_nil (p :: W')) eqn:Hn; [|discriminate]. apply clean_written. apply has_nil_true. exact Hn.
  - destruct W as [|p W']; [cbn [clean_b] in H; rewrite (is_zero_b_sound _ _ H); constructor|].
    remember (p :: W') as W eqn:EW.
    assert (HW : W <> []) by (subst; discriminate).
    rewrite (clean_b_step fuel env t v W HW) in H. clear EW p W'. cbv zeta in H.
    destruct (has_nil W) eqn:Hn; [apply clean_written; apply has_nil_true; exact Hn|].
    pose proof (has_nil_false _ Hn) as Hnn.
    (* the two recursive parts *)
    assert (F : forall m fs,
      match nlist_get m env with
      | Some fds => forallb (fun fd => let '(f, (ex, ft)) := fd in
                       if ex : bool then clean_b fuel env ft (field_of ft (aget f fs)) (psub f W) else true) fds
      | None => true
      end = true ->
      forall f ft, lookup_field env m f = Some (true, ft) -> clean env ft (field_of ft (aget f fs)) (sub f W)).
    { intros m fs Hf f ft Hl. unfold lookup_field in Hl. destruct (nlist_get m env) as [fds|]; [|discriminate].
      apply nlist_get_In in Hl. rewrite forallb_forall in Hf. specialize (Hf _ Hl). cbn in Hf. rewrite <- psub_sub. apply IH. exact Hf. }
    assert (E : forall e es,
      forallb (fun kx => let '(k, x) := kx in
                 match psub k W with [] => false | _ => clean_b fuel env e x (psub k W) end) es
      && heads_present W es = true ->
      (forall k x, aget k es = Some x -> sub k W <> []) /\
      (forall k x, aget k es = Some x -> clean env e x (sub k W)) /\
      (forall k, sub k W <> [] -> aget k es <> None)).
    { intros e es He. apply andb_true_iff in He. destruct He as [He1 He2].
      rewrite forallb_forall in He1. unfold heads_present in He2. rewrite forallb_forall in He2.
      split; [|split].
      - intros k x Hg. apply nlist_get_In in Hg. specialize (He1 _ Hg). cbn in He1.
        rewrite <- psub_sub. destruct (psub k W); [discriminate|discriminate].
      - intros k x Hg. apply nlist_get_In in Hg. specialize (He1 _ Hg). cbn in He1.
        rewrite <- psub_sub. destruct (psub k W) eqn:Es; [discriminate|]. apply IH. exact He1.
      - intros k Hs. apply sub_nonempty in Hs. destruct Hs as [r Hr]. specialize (He2 _ Hr). cbn in He2.
        destruct (aget k es); [discriminate|discriminate]. }
    destruct t as [| | |m|u|ks e].
    + destruct v; discriminate.
    + destruct v; discriminate.
    + (* any slot holding a map[string]any *)
      destruct v as [|z|s|m' fs|u' o|ks' e' o]; try discriminate.
      destruct ks'; [|discriminate]. destruct e'; try discriminate. destruct o as [es|]; [|discriminate].
      destruct (E TAny es H) as [E1 [E2 E3]].
      eapply clean_map; eauto.
    + (* struct *)
      destruct v as [|z|s|m' fs|u' o|ks' e' o]; try discriminate.
      apply andb_true_iff in H. destruct H as [Hm Hf]. apply N.eqb_eq in Hm. subst m'.
      apply clean_struct; [exact HW|exact Hnn|apply F; exact Hf].
    + (* pointer to a struct *)
      destruct u as [| | |m| |]; try (destruct v; discriminate).
      destruct v as [|z|s|m' fs|u' o|ks' e' o]; try discriminate.
      destruct u' as [| | |m'| |]; try discriminate. destruct o as [w|]; [|discriminate].
      destruct w as [| | |m'' fs| |]; try discriminate.
      apply andb_true_iff in H. destruct H as [Hm Hf]. apply andb_true_iff in Hm. destruct Hm as [Hm1 Hm2].
      apply N.eqb_eq in Hm1. apply N.eqb_eq in Hm2. subst.
      apply clean_ptr; [exact HW|exact Hnn|apply F; exact Hf].
    + (* map *)
      destruct ks; [|destruct v; discriminate].
      destruct v as [|z|s|m' fs|u' o|ks' e' o]; try discriminate.
      destruct ks'; [|discriminate]. destruct o as [es|]; [|discriminate].
      apply andb_true_iff in H. destruct H as [He Hes]. apply ty_eqb_eq in He. subst e'.
      destruct (E e es Hes) as [E1 [E2 E3]].
      eapply clean_map; eauto.
Qed.

(* every path that overlaps no target reads the zero value of its static type *)
Theorem clean_b_read_zero : forall fuel env t v W q z,
  clean_b fuel env t v W = true ->
  (forall p, In p W -> conflict q p = false) -> q <> [] ->
  take_path env v q = Ok z ->
  exists st b, extract_ty env t q = SOk st b /\ z = zero st.
Proof.
  intros fuel env t v W q z H Hf Hq Ht.
  eapply clean_read_zero; eauto. apply clean_b_sound with (fuel := fuel). exact H.
Qed.
