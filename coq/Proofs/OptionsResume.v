(* Proofs/OptionsResume.v — property C16: a call that resumes from a checkpoint distributes its
   options exactly like a call that starts fresh; handlers fire exactly where addressed;
   nothing is delivered that this call's options do not contain. *)
From Eino Require Import Base.Util Model.Options Model.OptionsSpec Model.OptionsResume Proofs.Options.
Local Open Scope N_scope.

(* ------------------------------------------------------------------ resumed = fresh *)
Lemma res_mapM_ext {A B} (f g : A -> res B) l :
  (forall a, f a = g a) -> res_mapM f l = res_mapM g l.
Proof. intros H. induction l as [|a l IH]; simpl; auto. rewrite H, IH. reflexivity. Qed.

Lemma res_flat_mapM_ext {A B} (f g : A -> res (list B)) l :
  (forall a, f a = g a) -> res_flat_mapM f l = res_flat_mapM g l.
Proof. intros H. unfold res_flat_mapM. rewrite (res_mapM_ext f g l H). reflexivity. Qed.

(* restoreTasks and createTasks hand a node the same slice: optMap[key], nil when absent *)
Lemma task_of_option c k m : t_option (task_of false c k m) = om_get k m.
Proof.
  unfold task_of. destruct c as [c|]; [|reflexivity].
  destruct (mem_key k (ck_inputs c)); [|reflexivity].
  unfold restore_task, om_get. simpl. destruct (nlist_get k m); reflexivity.
Qed.

Lemma run_resume_S d f F gi pre inh opts c :
  run_resume_gen d (S f) F gi pre inh opts c =
  match nth_error F gi with
  | None => Err E_GRAPH
  | Some g =>
      do m <- validate (S f) F gi opts;
      res_flat_mapM (fun nd =>
        if negb (n_runs nd) then Ok [] else
        let p := pre ++ [n_key nd] in
        let hs := inh ++ node_handlers (n_key nd) opts in
        let t := task_of d c (n_key nd) m in
        match n_kind nd with
        | KComp ty =>
            do its <- convert_items ty (t_option t);
            Ok [mkRep p (Some its) (if n_cb nd then Some hs else None)]
        | KSub gj =>
            do os <- convert_opts (t_option t);
            do rs <- run_resume_gen d f F gj p hs os (t_ckpt t);
            Ok (mkRep p None (Some hs) :: rs)
        end) g
  end.
Proof. reflexivity. Qed.

Lemma run_resume_eq fuel : forall F gi pre inh opts c,
  run_resume fuel F gi pre inh opts c = run_graph fuel F gi pre inh opts.
Proof.
  unfold run_resume.
  induction fuel as [|f IH]; intros F gi pre inh opts c; [reflexivity|].
  rewrite run_resume_S, run_graph_S.
  destruct (nth_error F gi) as [g|]; [|reflexivity].
  destruct (validate (S f) F gi opts) as [m| |]; simpl; try reflexivity.
  apply res_flat_mapM_ext. intros nd. unfold node_run.
  destruct (negb (n_runs nd)); [reflexivity|].
  cbv zeta. rewrite task_of_option.
  destruct (n_kind nd) as [ty|gj]; [reflexivity|].
  destruct (convert_opts (om_get (n_key nd) m)) as [os| |]; simpl; try reflexivity.
  rewrite IH. reflexivity.
Qed.

Lemma resume_call_eq F opts c : resume_call F opts c = run_call F opts.
Proof.
  unfold resume_call, resume_call_gen, run_call.
  change (run_resume_gen false) with run_resume. rewrite run_resume_eq. reflexivity.
Qed.

Lemma resume_eq F cl c : resume F cl c = run F cl.
Proof.
  unfold resume, run. destruct (call_opts cl); simpl; auto. apply resume_call_eq.
Qed.

(* ------------------------------------------------------------------ handlers *)
(* some designated path of [o] is the node [p] itself or a graph node above it *)
Definition desig_addressed (o : copt) (p : path) : Prop :=
  exists q, In q (o_paths o) /\ q <> [] /\ prefixb q p = true.

Lemma handler_addressed_split o p :
  handler_addressed o p <-> o_paths o = [] \/ desig_addressed o p.
Proof. reflexivity. Qed.

Lemma designates_key_in k ps : designates_key k ps = true <-> In [k] ps.
Proof.
  unfold designates_key. rewrite existsb_exists. split.
  - intros [q [Hq Hm]]. destruct q as [|k' [|? ?]]; try discriminate.
    apply N.eqb_eq in Hm. subst. exact Hq.
  - intros H. exists [k]. split; auto. apply N.eqb_refl.
Qed.

Lemma node_handlers_in k opts h :
  In h (node_handlers k opts) <->
  exists o, In o opts /\ In h (o_handlers o) /\ In [k] (o_paths o).
Proof.
  unfold node_handlers. rewrite in_flat_map. split.
  - intros [o [Ho Hh]]. destruct (designates_key k (o_paths o)) eqn:E; [|contradiction].
    apply designates_key_in in E. eauto.
  - intros [o [Ho [Hh Hk]]]. exists o. split; auto.
    apply designates_key_in in Hk. rewrite Hk. exact Hh.
Qed.

Lemma graph_handlers_in opts h :
  In h (graph_handlers opts) <->
  exists o, In o opts /\ In h (o_handlers o) /\ o_paths o = [].
Proof.
  unfold graph_handlers. rewrite in_flat_map. split.
  - intros [o [Ho Hh]]. destruct (o_paths o) eqn:E; [|contradiction]. eauto.
  - intros [o [Ho [Hh Hp]]]. exists o. split; auto. rewrite Hp. exact Hh.
Qed.

Lemma prefixb_single q k : q <> [] -> prefixb q [k] = true -> q = [k].
Proof.
  destruct q as [|x [|y q]]; simpl; intros Hne H; try congruence.
  - rewrite Bool.andb_true_r in H. apply N.eqb_eq in H. subst. reflexivity.
  - rewrite Bool.andb_false_r in H. discriminate.
Qed.

Lemma desig_addressed_single o k : desig_addressed o [k] <-> In [k] (o_paths o).
Proof.
  split.
  - intros [q [Hq [Hne Hp]]]. rewrite <- (prefixb_single q k Hne Hp). exact Hq.
  - intros H. exists [k]. split; auto. split; [discriminate|]. simpl. rewrite N.eqb_refl. reflexivity.
Qed.

(* the handlers of a deep copy are the original's *)
Lemma sub_opts_handlers k o o' : In o' (sub_opts k o) -> o_handlers o' = o_handlers o.
Proof.
  unfold sub_opts. destruct (o_paths o) as [|q0 qs] eqn:E.
  - destruct (o_items o); simpl; [contradiction|]. intros [<-|[]]. reflexivity.
  - rewrite in_flat_map. intros [q [_ Hq]]. unfold sub_path_opts in Hq.
    destruct q as [|k' [|k2 rest]]; simpl in Hq; try contradiction.
    + destruct (N.eqb k' k); [|contradiction]. destruct (o_items o); [contradiction|].
      destruct Hq as [<-|[]]. reflexivity.
    + destruct (N.eqb k' k); [|contradiction]. destruct Hq as [<-|[]]. reflexivity.
Qed.

(* what is designated below graph node [k] is what was designated to k :: _ one level up *)
Lemma sub_opts_desig k o p'' :
  (exists o', In o' (sub_opts k o) /\ desig_addressed o' p'') <->
  (exists rest, In (k :: rest) (o_paths o) /\ rest <> [] /\ prefixb rest p'' = true).
Proof.
  split.
  - intros [o' [Ho' [q [Hq [Hne Hp]]]]]. unfold sub_opts in Ho'.
    destruct (o_paths o) as [|q0 qs] eqn:E.
    + destruct (o_items o); simpl in Ho'; [contradiction|]. destruct Ho' as [<-|[]].
      rewrite E in Hq. contradiction.
    + rewrite in_flat_map in Ho'. destruct Ho' as [q1 [Hq1 Ho']]. unfold sub_path_opts in Ho'.
      destruct q1 as [|k' [|k2 rest]]; simpl in Ho'; try contradiction.
      * destruct (N.eqb k' k); [|contradiction]. destruct (o_items o); [contradiction|].
        destruct Ho' as [<-|[]]. simpl in Hq. contradiction.
      * destruct (N.eqb k' k) eqn:Ek; [|contradiction]. apply N.eqb_eq in Ek. subst k'.
        destruct Ho' as [<-|[]]. simpl in Hq. destruct Hq as [<-|[]].
        exists (k2 :: rest). auto.
  - intros [rest [Hin [Hne Hp]]]. exists (deep_copy o [rest]). split.
    + unfold sub_opts. destruct (o_paths o) as [|q0 qs] eqn:E; [contradiction|].
      rewrite in_flat_map. exists (k :: rest). split; [exact Hin|].
      unfold sub_path_opts. destruct rest as [|k2 rest]; [congruence|].
      rewrite N.eqb_refl. left. reflexivity.
    + exists rest. simpl. auto.
Qed.

Lemma level_handlers k opts p'' h :
  p'' <> [] ->
  ((In h (node_handlers k opts) \/
    exists o', In o' (flat_map (sub_opts k) opts) /\ In h (o_handlers o') /\ desig_addressed o' p'') <->
   exists o, In o opts /\ In h (o_handlers o) /\ desig_addressed o (k :: p'')).
Proof.
  intros Hne. split.
  - intros [H|[o' [Ho' [Hh Hd]]]].
    + apply node_handlers_in in H. destruct H as [o [Ho [Hh Hk]]].
      exists o. split; auto. split; auto.
      exists [k]. split; auto. split; [discriminate|]. simpl. rewrite N.eqb_refl. reflexivity.
    + apply in_flat_map in Ho'. destruct Ho' as [o [Ho Ho']].
      exists o. split; auto. split; [rewrite <- (sub_opts_handlers k o o' Ho'); exact Hh|].
      destruct (proj1 (sub_opts_desig k o p'') (ex_intro _ o' (conj Ho' Hd))) as [rest [Hin [Hr Hp]]].
      exists (k :: rest). split; auto. split; [discriminate|]. simpl. rewrite N.eqb_refl. exact Hp.
  - intros [o [Ho [Hh [q [Hq [Hqne Hp]]]]]].
    destruct q as [|x rest]; [congruence|]. simpl in Hp.
    apply andb_prop in Hp. destruct Hp as [Hx Hp]. apply N.eqb_eq in Hx. subst x.
    destruct rest as [|k2 rest].
    + left. apply node_handlers_in. eauto.
    + right.
      assert (Hex : exists rest', In (k :: rest') (o_paths o) /\ rest' <> [] /\ prefixb rest' p'' = true).
      { exists (k2 :: rest). split; auto. split; [discriminate|exact Hp]. }
      destruct (proj2 (sub_opts_desig k o p'') Hex) as [o' [Ho' Hd]].
      exists o'. split; [apply in_flat_map; eauto|]. split; auto.
      rewrite (sub_opts_handlers k o o' Ho'). exact Hh.
Qed.

(* the handlers in the callback manager of every node of a (sub) graph run: the inherited ones
   and those designated to the node or to a graph node above it, inside this graph *)
Lemma run_graph_fired fuel : forall F gi pre inh opts rs,
  keys_unique F -> run_graph fuel F gi pre inh opts = Ok rs ->
  forall r, In r rs ->
  exists p', p' <> [] /\ r_path r = pre ++ p' /\
    forall hs, r_fired r = Some hs ->
    forall h, In h hs <->
              (In h inh \/ exists o, In o opts /\ In h (o_handlers o) /\ desig_addressed o p').
Proof.
  induction fuel as [|f IH]; intros F gi pre inh opts rs HU H r Hr; [discriminate|].
  rewrite run_graph_S in H.
  destruct (nth_error F gi) as [g|] eqn:Hg; [|discriminate].
  apply res_bind_ok in H. destruct H as [m [Hv H]].
  destruct (validate_inv _ _ _ _ _ Hv) as [f' [g' [Hf' [Hg' [Hm _]]]]].
  rewrite Hg in Hg'. inversion Hg'; subst g'. clear Hg' Hf' f'.
  destruct (flat_mapM_in _ _ _ _ H Hr) as [nd [o [Hin [Ho Hro]]]].
  unfold node_run in Ho.
  destruct (n_runs nd) eqn:Hruns; simpl in Ho; [|inversion Ho; subst; contradiction].
  assert (Hself : forall h, In h (inh ++ node_handlers (n_key nd) opts) <->
            (In h inh \/ exists o, In o opts /\ In h (o_handlers o) /\ desig_addressed o [n_key nd])).
  { intros h. rewrite in_app_iff, node_handlers_in. split.
    - intros [Hi|[o0 [Ho0 [Hh Hk]]]]; [left; exact Hi|]. right. exists o0. split; auto. split; auto.
      apply desig_addressed_single. exact Hk.
    - intros [Hi|[o0 [Ho0 [Hh Hd]]]]; [left; exact Hi|]. right. exists o0. split; auto. split; auto.
      apply desig_addressed_single. exact Hd. }
  destruct (n_kind nd) as [ty|gj] eqn:Hk.
  - apply res_bind_ok in Ho. destruct Ho as [its [Hits Ho]]. inversion Ho; subst o. clear Ho.
    destruct Hro as [<-|[]]. simpl. exists [n_key nd]. split; [discriminate|]. split; [reflexivity|].
    intros hs Hhs. destruct (n_cb nd); [|discriminate]. inversion Hhs; subst hs. exact Hself.
  - apply res_bind_ok in Ho. destruct Ho as [os [Hos Ho]].
    apply res_bind_ok in Ho. destruct Ho as [rs' [Hrs' Ho]]. inversion Ho; subst o. clear Ho.
    rewrite (node_slice_sub F gi g nd gj opts m HU Hg Hin Hk Hm), convert_opts_map in Hos.
    inversion Hos; subst os. clear Hos.
    destruct Hro as [<-|Hro].
    + simpl. exists [n_key nd]. split; [discriminate|]. split; [reflexivity|].
      intros hs Hhs. inversion Hhs; subst hs. exact Hself.
    + destruct (IH _ _ _ _ _ _ HU Hrs' r Hro) as [p'' [Hne [Hp Hfired]]].
      exists (n_key nd :: p''). split; [discriminate|]. split; [rewrite Hp, <- app_assoc; reflexivity|].
      intros hs Hhs h. rewrite (Hfired hs Hhs h). rewrite in_app_iff.
      rewrite <- (level_handlers (n_key nd) opts p'' h Hne). tauto.
Qed.

(* the whole call: handlers fire exactly where addressed *)
Lemma run_call_fired F opts rs r hs :
  keys_unique F -> run_call F opts = Ok rs -> In r rs -> r_fired r = Some hs ->
  forall h, In h hs <->
            exists o, In o opts /\ In h (o_handlers o) /\ handler_addressed o (r_path r).
Proof.
  intros HU H Hr Hhs h. unfold run_call in H.
  apply res_bind_ok in H. destruct H as [rs' [Hrs' H]]. inversion H; subst rs. clear H.
  destruct Hr as [<-|Hr].
  - simpl in Hhs. inversion Hhs; subst hs. simpl. rewrite graph_handlers_in. split.
    + intros [o [Ho [Hh Hp]]]. exists o. split; auto. split; auto. left. exact Hp.
    + intros [o [Ho [Hh [Hp|[q [Hq [Hne Hpre]]]]]]]; [eauto|].
      destruct q; [congruence|discriminate].
  - destruct (run_graph_fired _ _ _ _ _ _ _ HU Hrs' r Hr) as [p' [Hne [Hp Hfired]]].
    simpl in Hp. rewrite Hp. rewrite (Hfired hs Hhs h), graph_handlers_in. split.
    + intros [[o [Ho [Hh Hnil]]]|[o [Ho [Hh Hd]]]]; exists o; (split; [exact Ho|]); (split; [exact Hh|]).
      * left. exact Hnil.
      * right. exact Hd.
    + intros [o [Ho [Hh [Hnil|Hd]]]]; [left|right]; exists o; auto.
Qed.

(* ------------------------------------------------------------------ nothing leaks into a call *)
Lemma resume_call_no_leak F opts c rs r :
  keys_unique F -> resume_call F opts c = Ok rs -> In r rs ->
  (forall its it, r_items r = Some its -> In it its -> exists o, In o opts /\ In it (o_items o)) /\
  (forall hs h, r_fired r = Some hs -> In h hs -> exists o, In o opts /\ In h (o_handlers o)).
Proof.
  intros HU H Hr. rewrite resume_call_eq in H. split.
  - intros its it Hits Hit.
    destruct (run_call_delivered_sound F opts rs r its HU H Hr Hits) as [nd [ty [_ [_ [_ [Hspec _]]]]]].
    subst its. apply spec_delivered_in in Hit. destruct Hit as [o [Ho [Hi _]]]. eauto.
  - intros hs h Hhs Hh.
    apply (run_call_fired F opts rs r hs HU H Hr Hhs h) in Hh. destruct Hh as [o [Ho [Hh _]]]. eauto.
Qed.

(* the closed forms hold for a resumed call as they do for a fresh one *)
Lemma resume_call_delivered F opts c rs r its :
  keys_unique F -> resume_call F opts c = Ok rs -> In r rs -> r_items r = Some its ->
  exists nd ty, executes F 0 (r_path r) = true /\ resolve F 0 (r_path r) = Some nd /\
                n_kind nd = KComp ty /\ its = spec_delivered opts (r_path r) ty /\
                Forall (fun it => fst it = ty) its.
Proof. intros HU H. rewrite resume_call_eq in H. exact (run_call_delivered_sound F opts rs r its HU H). Qed.

Lemma resume_call_delivered_complete F opts c rs p nd ty :
  keys_unique F -> resume_call F opts c = Ok rs ->
  resolve F 0 p = Some nd -> n_kind nd = KComp ty -> executes F 0 p = true ->
  exists r, In r rs /\ r_path r = p /\ r_items r = Some (spec_delivered opts p ty).
Proof. intros HU H. rewrite resume_call_eq in H. exact (run_call_delivered_complete F opts rs p nd ty HU H). Qed.

(* ------------------------------------------------------------------ old behaviour refuted *)
(* graph node 2 sits behind a branch that is not taken; the option designates an unknown node
   inside it *)
Definition v0F : forest :=
  [ [mkNode 1 (KComp 6) true true; mkNode 2 (KSub 1%nat) true false];
    [mkNode 1 (KComp 6) true true] ].
Definition v0Opts : list copt := [ mkOpt [(6, 1)] [] [[2; 9]] ].

Lemma bad_designation_errors_v0_refuted_l :
  ~ (forall F opts,
       keys_unique F -> well_nested F -> F <> [] -> Forall uniform opts ->
       (fails (run_call_v0 F opts) <->
        exists o q, In o opts /\ In q (o_paths o) /\ bad_path F o 0 q = true)).
Proof.
  intros H.
  assert (HU : keys_unique v0F).
  { intros gi g Hg. destruct gi as [|[|gi]]; simpl in Hg; try (destruct gi; discriminate);
      inversion Hg; subst; simpl; repeat constructor; simpl; intuition discriminate. }
  assert (HW : well_nested v0F).
  { intros gi g nd gj Hg Hin Hk.
    destruct gi as [|[|gi]]; simpl in Hg; try (destruct gi; discriminate); inversion Hg; subst;
      simpl in Hin; intuition; subst; simpl in Hk; inversion Hk; subst; simpl; lia. }
  assert (HF : v0F <> []) by discriminate.
  assert (HO : Forall uniform v0Opts).
  { repeat constructor. intros it Hit. simpl in Hit. destruct Hit as [<-|[]]. reflexivity. }
  destruct (H v0F v0Opts HU HW HF HO) as [_ Hbad].
  assert (Hf : fails (run_call_v0 v0F v0Opts)).
  { apply Hbad. exists (mkOpt [(6, 1)] [] [[2; 9]]), [2; 9]. simpl. auto. }
  eapply Hf. vm_compute. reflexivity.
Qed.

(* the repaired code rejects that call *)
Lemma v0_witness_rejected : fails (run_call v0F v0Opts).
Proof. intros a. vm_compute. discriminate. Qed.

(* bad designations and resumed calls *)
Lemma resume_call_fails_iff F opts c :
  keys_unique F -> well_nested F -> F <> [] -> Forall uniform opts ->
  (fails (resume_call F opts c) <->
   exists o q, In o opts /\ In q (o_paths o) /\ bad_path F o 0 q = true).
Proof. intros HU HW HF HO. rewrite resume_call_eq. apply run_call_fails_iff; assumption. Qed.

(* F-C16b: with a passthrough taken for a sub graph, a component option designated to it and a
   path below it were accepted by the extraction of the graph they start in *)
Definition v0bG : graph := [mkNode 1 (KComp 6) true true; mkNode 3 (KComp 0) false true].
Definition v0bOpts : list copt := [ mkOpt [(6, 1)] [] [[3]]; mkOpt [(6, 2)] [] [[3; 1]] ].

Lemma extract_option_v0b_refuted_l :
  ~ (forall g opts,
       NoDup (map n_key g) ->
       (fails (extract_option_v0b g opts) <->
        exists o q, In o opts /\ In q (o_paths o) /\ level_bad g o q = true)).
Proof.
  intros H.
  assert (HN : NoDup (map n_key v0bG)).
  { simpl. repeat constructor; simpl; intuition discriminate. }
  destruct (H v0bG v0bOpts HN) as [_ Hbad].
  assert (Hf : fails (extract_option_v0b v0bG v0bOpts)).
  { apply Hbad. exists (mkOpt [(6, 2)] [] [[3; 1]]), [3; 1]. simpl. auto. }
  eapply Hf. vm_compute. reflexivity.
Qed.

(* the repaired extraction rejects both options *)
Lemma v0b_witness_rejected :
  fails (extract_option v0bG [mkOpt [(6, 1)] [] [[3]]] []) /\
  fails (extract_option v0bG [mkOpt [(6, 2)] [] [[3; 1]]] []).
Proof. split; intros a; vm_compute; discriminate. Qed.
