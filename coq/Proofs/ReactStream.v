(* Proofs/ReactStream.v — the streamed form of the tools node inside the ReAct agent (property C18):
   * [frames_exact]: if the merged frames concatenate, position by position, to the Invoke answer,
     then the chat node gets that answer and direct_return's frame-by-frame filter at ANY position
     yields the message at that position — the hypothesis [tools_exact] of the refinement theorems;
   * [tools_node_stream_exact]: compose.ToolsNode as modelled by Model/Tools.v (the definitions the
     correspondence check runs) satisfies it, for every completion order and every complete
     interleaving of the tool streams (from property C17's stream_concat / invoke_spec);
   * [agent_run_ext], [completion_order_irrelevant]: a run depends on the tools node only through
     what it answers, hence not on the order in which the tools of a round finish;
   * the witness for the behaviour before fix a2b0142 (return-directly call found by its id). *)
From Coq Require Import Permutation.
From Eino Require Import Base.Util Model.Tools Model.React Proofs.Tools Proofs.ToolsMore Proofs.React Proofs.ReactExt.
Local Open Scope string_scope.

Lemma all_some_map_Some : forall A (l : list A), all_some (map Some l) = Some l.
Proof. induction l; simpl; auto. rewrite IHl. reflexivity. Qed.

Lemma nth_error_combine_seq_ids : forall (ids : list string) a i,
  nth_error (combine (seq a (List.length ids)) ids) i
  = match nth_error ids i with Some id => Some (a + i, id) | None => None end.
Proof.
  induction ids as [|x ids IH]; intros a i; simpl.
  - destruct i; reflexivity.
  - destruct i; simpl.
    + rewrite Nat.add_0_r. reflexivity.
    + rewrite IH. rewrite Nat.add_succ_r. reflexivity.
Qed.

(* the frames concatenate to [results]: every consumer of the stream sees the Invoke answer *)
Lemma frames_exact : forall ids em results,
  concat_pos ids em = Ok (map Some results) ->
  tout_results (TFrames ids em None) = Ok results
  /\ forall i, tout_direct i (TFrames ids em None) = Ok (nth_error results i).
Proof.
  intros ids em results H. split.
  - simpl. rewrite H. rewrite all_some_map_Some. reflexivity.
  - intros i. simpl. unfold concat_pos in H. destruct em as [|e0 em']; [discriminate|].
    remember (e0 :: em') as em. inversion H as [H1]. clear H.
    apply (f_equal (fun l => nth_error l i)) in H1.
    rewrite !nth_error_map in H1. rewrite nth_error_combine_seq_ids in H1. simpl in H1.
    destruct (nth_error ids i) as [id|]; simpl in H1.
    + destruct (proj i em) as [|c cs].
      * destruct (nth_error results i); simpl in H1; discriminate.
      * destruct (nth_error results i) as [r|]; simpl in H1; [|discriminate].
        inversion H1. reflexivity.
    + destruct (nth_error results i); simpl in H1; [discriminate|].
      destruct (proj i em); reflexivity.
Qed.

Lemma rd_call_index_lt : forall rd calls i, rd_call_index rd calls = Some i -> i < List.length calls.
Proof.
  induction calls as [|c calls IH]; simpl; intros i H; [discriminate|].
  destruct (rd (c_name c)).
  - inversion H. lia.
  - destruct (rd_call_index rd calls) as [j|]; simpl in H; [|discriminate].
    inversion H. specialize (IH j eq_refl). lia.
Qed.

(* the position found is that of the first call to a return-directly tool *)
Lemma rd_call_index_first : forall rd calls i,
  rd_call_index rd calls = Some i <->
  exists c, nth_error calls i = Some c /\ rd (c_name c) = true
            /\ forall j c', j < i -> nth_error calls j = Some c' -> rd (c_name c') = false.
Proof.
  induction calls as [|c0 calls IH]; intros i; simpl.
  - split; [discriminate|]. intros [c [H _]]. destruct i; discriminate.
  - destruct (rd (c_name c0)) eqn:E0.
    + split.
      * intros H. inversion H. exists c0. repeat split; auto. intros j c' Hj. lia.
      * intros [c [Hn [Hr Hf]]]. destruct i; [reflexivity|].
        specialize (Hf 0 c0 ltac:(lia) eq_refl). congruence.
    + split.
      * destruct (rd_call_index rd calls) as [j|] eqn:Ej; simpl; [|discriminate].
        intros H. inversion H. subst i. destruct (proj1 (IH j) eq_refl) as [c [Hn [Hr Hf]]].
        exists c. repeat split; auto. intros k c' Hk Hn'. destruct k; simpl in Hn'.
        -- inversion Hn'. subst. exact E0.
        -- apply (Hf k c'); auto. lia.
      * intros [c [Hn [Hr Hf]]]. destruct i; simpl in Hn.
        -- inversion Hn. subst. congruence.
        -- assert (Hi : rd_call_index rd calls = Some i).
           { apply IH. exists c. repeat split; auto. intros j c' Hj Hn'. apply (Hf (S j) c'); auto. lia. }
           rewrite Hi. reflexivity.
Qed.

(* ---- compose.ToolsNode (Model/Tools.v) satisfies tools_exact -------------------------------- *)
Section Bridge.
  Variable kind_of : string -> option tkind.
  Variable inv : string -> string -> tres.
  Variable str : string -> string -> sres.
  Variable handler : option (string -> string -> tres).
  Variable pi_of pi_of' : list call -> list nat.       (* completion orders of Invoke resp. Stream *)
  Variable sched_of : list (list string * option N) -> list nat.   (* interleaving of the merge *)
  Variable rd : string -> bool.
  Variable rd_nonempty : bool.

  Definition node_tn (calls : list call) : res (list tmsg) :=
    in_graph (tools_invoke kind_of inv str handler (pi_of calls) true calls).
  Definition node_tns (calls : list call) : res (list string * list emitted * option N) :=
    tools_stream_frames kind_of inv str handler (pi_of' calls) sched_of calls.

  (* every call of the round is answered by a tool (or the unknown-tool handler) whose stream has at
     least one chunk and no error item and concatenates to what the tool returns when invoked
     (automatic unless the tool implements both interfaces itself: C17 tools_derived_consistent);
     all goroutines finish; the merged stream is read to its end *)
  Theorem tools_node_stream_exact : forall calls css,
    calls <> [] ->
    Permutation (pi_of calls) (seq 0 (List.length calls)) ->
    Permutation (pi_of' calls) (seq 0 (List.length calls)) ->
    Forall2 (fun c cs => s_answer kind_of inv str handler c = Ok (SOk cs None) /\ cs <> []) calls css ->
    Forall2 (fun c cs => answer kind_of inv str handler c = Ok (TOk (concat_strings cs))) calls css ->
    (forall srcs, tails_none srcs -> drained (merge_rest (sched_of srcs) srcs) = true) ->
    tools_exact node_tn node_tns rd rd_nonempty Stream calls
    /\ node_tn calls = Ok (combine (map concat_strings css) (map c_id calls)).
  Proof.
    intros calls css Hne P P' Hs Hi Hsched.
    destruct (stream_concat kind_of inv str handler (pi_of' calls) calls css Hne P' Hs) as [ss [Ho Hc]].
    assert (Hi' : Forall2 (fun c o => answer kind_of inv str handler c = Ok (TOk o)) calls (map concat_strings css)).
    { clear - Hi. induction Hi; simpl; constructor; auto. }
    pose proof (invoke_spec kind_of inv str handler (pi_of calls) calls _ Hne P Hi') as Hinv.
    assert (Htn : node_tn calls = Ok (combine (map concat_strings css) (map c_id calls))).
    { unfold node_tn. rewrite Hinv. reflexivity. }
    split; [|exact Htn].
    unfold tools_exact. rewrite Htn.
    (* the sources have no error item *)
    assert (Hl : List.length (map c_id calls) = List.length css).
    { rewrite map_length. eapply Forall2_length; eauto. }
    destruct (s_answers_tasks _ _ _ _ _ _ Hs) as [tasks [A B]].
    assert (Hss : ss = mk_streams (map c_id calls) css).
    { rewrite tools_stream_any_order in Ho by (apply perm_covers; auto).
      rewrite (gen_tasks_ok _ _ _ _ Hne A) in Ho. simpl in Ho.
      rewrite (scan_stream_all_ok _ _ _ _ _ B) in Ho. rewrite (forall2_ids _ _ _ _ A) in Ho.
      inversion Ho. reflexivity. }
    assert (Ht : tails_none (stream_srcs ss)).
    { rewrite Hss. rewrite stream_srcs_mk by auto.
      intros s Hin. apply in_map_iff in Hin. destruct Hin as [cs [<- _]]. reflexivity. }
    destruct (Hc (sched_of (stream_srcs ss)) (Hsched _ Ht)) as [Hnone Hcat].
    exists (stream_ids ss), (fst (merge_run (sched_of (stream_srcs ss)) (stream_srcs ss))).
    assert (Hmap : map (fun p : string * list string => Some (concat_strings (snd p), fst p)) (combine (map c_id calls) css)
                   = map Some (combine (map concat_strings css) (map c_id calls))).
    { clear. generalize (map c_id calls) as ids. induction css; intros ids; destruct ids; simpl; auto.
      f_equal. apply IHcss. }
    rewrite Hmap in Hcat.
    destruct (frames_exact _ _ _ Hcat) as [Hres Hdir].
    repeat split; auto.
    unfold node_tns, tools_stream_frames. rewrite Ho. simpl. rewrite Hnone. reflexivity.
  Qed.

  (* ---- ... and when a tool fails as it is called (or is unknown) the two forms fail alike ---- *)
  (* a call's tool behaves alike in its two forms: both answer (the stream, of at least one chunk
     and without error item, concatenating to the invoked answer), or both fail with the same
     error / both panic as they are called, or the call names no tool (and there is no handler) *)
  Definition call_consistent (c : call) : Prop :=
    match answer kind_of inv str handler c, s_answer kind_of inv str handler c with
    | Ok (Tools.TOk o), Ok (SOk cs None) => cs <> [] /\ o = concat_strings cs
    | Ok (Tools.TErr e), Ok (SErr e') => e = e'
    | Ok Tools.TPanic, Ok SPanic => True
    | Err _, Err _ => True
    | _, _ => False
    end.

  Definition call_ok (c : call) : Prop :=
    exists cs, s_answer kind_of inv str handler c = Ok (SOk cs None) /\ cs <> []
               /\ answer kind_of inv str handler c = Ok (Tools.TOk (concat_strings cs)).

  Lemma consistent_cases : forall c, call_consistent c ->
    call_ok c
    \/ (exists e, answer kind_of inv str handler c = Ok (Tools.TErr e) /\ s_answer kind_of inv str handler c = Ok (SErr e))
    \/ (answer kind_of inv str handler c = Ok Tools.TPanic /\ s_answer kind_of inv str handler c = Ok SPanic)
    \/ (exists e e', answer kind_of inv str handler c = Err e /\ s_answer kind_of inv str handler c = Err e').
  Proof.
    intros c H. unfold call_consistent in H.
    destruct (answer kind_of inv str handler c) as [[o|e|]|e|] eqn:Ea;
      destruct (s_answer kind_of inv str handler c) as [[cs [tl|]|e'|]|e'|] eqn:Es; try contradiction.
    - left. destruct H as [H1 H2]. exists cs. subst o. auto.
    - right. left. exists e. subst. auto.
    - right. right. left. auto.
    - right. right. right. eauto.
  Qed.

  (* the first call that does not answer, if any *)
  Lemma first_not_ok : forall calls,
    Forall call_consistent calls ->
    Forall call_ok calls
    \/ exists pre c post, calls = (pre ++ c :: post)%list /\ Forall call_ok pre /\ call_consistent c /\ ~ call_ok c.
  Proof.
    induction calls as [|c calls IH]; intros H.
    - left. constructor.
    - inversion H as [|? ? Hc Hr]; subst.
      destruct (consistent_cases c Hc) as [Ok1|Bad].
      + destruct (IH Hr) as [All|[pre [c' [post [E [Hp [Hcc Hn]]]]]]].
        * left. constructor; auto.
        * right. exists (c :: pre), c', post. subst. repeat split; auto.
      + right. exists [], c, calls. repeat split; auto.
        intros [cs [H1 [H2 H3]]].
        destruct Bad as [[e [A _]]|[[A _]|[e [e' [A _]]]]]; congruence.
  Qed.

  Lemma oks_css : forall l, Forall call_ok l ->
    exists css,
      Forall2 (fun c cs => s_answer kind_of inv str handler c = Ok (SOk cs None) /\ cs <> []) l css
      /\ Forall2 (fun c cs => answer kind_of inv str handler c = Ok (Tools.TOk (concat_strings cs))) l css.
  Proof.
    induction 1 as [|c l [cs [H1 [H2 H3]]] _ [css [A B]]].
    - exists []. split; constructor.
    - exists (cs :: css). split; constructor; auto.
  Qed.

  Theorem tools_node_exact_on_consistent_tools : forall calls,
    calls <> [] ->
    Permutation (pi_of calls) (seq 0 (List.length calls)) ->
    Permutation (pi_of' calls) (seq 0 (List.length calls)) ->
    Forall call_consistent calls ->
    (forall srcs, tails_none srcs -> drained (merge_rest (sched_of srcs) srcs) = true) ->
    tools_exact node_tn node_tns rd rd_nonempty Stream calls.
  Proof.
    intros calls Hne P P' Hc Hsched.
    destruct (first_not_ok calls Hc) as [All|[pre [c [post [E [Hpre [Hcc Hn]]]]]]].
    - destruct (oks_css calls All) as [css [A B]].
      exact (proj1 (tools_node_stream_exact calls css Hne P P' A B Hsched)).
    - (* some call does not answer: the two forms fail alike *)
      unfold tools_exact.
      assert (Hin : In c calls) by (subst; apply in_or_app; right; left; reflexivity).
      destruct (consistent_cases c Hcc) as [Ok1|Bad]; [contradiction|].
      (* does every call name a tool? *)
      assert (Dec : (forall c', In c' calls -> exists r' r'', answer kind_of inv str handler c' = Ok r'
                                                       /\ s_answer kind_of inv str handler c' = Ok r'')
                    \/ exists c', In c' calls /\ gen_task kind_of handler c' = Err E_UNKNOWN).
      { clear - Hc. induction calls as [|x l IH].
        - left. intros c' [].
        - inversion Hc as [|? ? Hx Hl]; subst.
          destruct (gen_task kind_of handler x) as [t|e|] eqn:Eg.
          + destruct (IH Hl) as [A|[c' [I G]]].
            * left. intros c' [<-|I]; [|apply A; exact I].
              unfold answer, s_answer. rewrite Eg. simpl. eauto.
            * right. exists c'. split; [right; exact I|exact G].
          + right. exists x. split; [left; reflexivity|].
            destruct (gen_task_cases kind_of handler x) as [_ G]. rewrite (G e Eg) in Eg. exact Eg.
          + destruct (gen_task_cases kind_of handler x) as [G _]. contradiction. }
      destruct Dec as [Res|[c' [I G]]].
      + (* every call resolves: the first failing call decides, in both forms *)
        destruct (oks_css pre Hpre) as [css [A B]].
        assert (Bo : Forall2 (fun c o => answer kind_of inv str handler c = Ok (Tools.TOk o)) pre (map concat_strings css)).
        { clear - B. induction B; simpl; constructor; auto. }
        assert (As : Forall (fun c => exists cs tl, s_answer kind_of inv str handler c = Ok (SOk cs tl)) pre).
        { clear - A. induction A as [|x cs l css [H _] _ IH]; constructor; eauto. }
        assert (R1 : forall c', In c' calls -> exists r', answer kind_of inv str handler c' = Ok r').
        { intros c0 I. destruct (Res c0 I) as [r' [_ [H _]]]. eauto. }
        assert (R2 : forall c', In c' calls -> exists r', s_answer kind_of inv str handler c' = Ok r').
        { intros c0 I. destruct (Res c0 I) as [_ [r'' [_ H]]]. eauto. }
        destruct Bad as [[e [Ea Es]]|[[Ea Es]|[e [e' [Ea _]]]]].
        * pose proof (invoke_first_failure kind_of inv str handler (pi_of calls) calls pre c post _ (Tools.TErr e) P E R1 Bo Ea
                        ltac:(intros o; discriminate)) as Hi.
          pose proof (stream_first_failure kind_of inv str handler (pi_of' calls) calls pre c post (SErr e) P' E R2 As Es
                        ltac:(intros cs tl; discriminate)) as Hs.
          unfold node_tn, node_tns, tools_stream_frames. rewrite Hi, Hs. simpl. reflexivity.
        * pose proof (invoke_first_failure kind_of inv str handler (pi_of calls) calls pre c post _ Tools.TPanic P E R1 Bo Ea
                        ltac:(intros o; discriminate)) as Hi.
          pose proof (stream_first_failure kind_of inv str handler (pi_of' calls) calls pre c post SPanic P' E R2 As Es
                        ltac:(intros cs tl; discriminate)) as Hs.
          unfold node_tn, node_tns, tools_stream_frames. rewrite Hi, Hs. destruct pre; simpl; reflexivity.
        * destruct (R1 c Hin) as [r' Hr']. congruence.
      + (* a call names no tool: nothing runs, both forms report it *)
        assert (Hk : kind_of (c_name c') = None /\ handler = None).
        { unfold gen_task in G. destruct (kind_of (c_name c')); [discriminate|].
          destruct handler; [discriminate|]. auto. }
        destruct Hk as [Hk Hh].
        destruct (unknown_without_handler kind_of inv str handler (pi_of calls) calls c' I Hk Hh) as [Hi _].
        destruct (unknown_without_handler kind_of inv str handler (pi_of' calls) calls c' I Hk Hh) as [_ [Hs _]].
        unfold node_tn, node_tns, tools_stream_frames. rewrite Hi, Hs. simpl. reflexivity.
  Qed.
End Bridge.

(* tools whose two forms behave alike (as functions of name and arguments): the stream has at least
   one chunk, no error item, and concatenates to the invoked answer; or both fail with the same
   error, or both panic, as they are called.  Then every call is consistent, whatever the kind of
   the tool (an invokable-only tool is streamed by invoking it, a streamable-only one invoked by
   concatenating its stream), with or without an unknown-tools handler *)
Definition tools_alike (inv : string -> string -> tres) (str : string -> string -> sres) : Prop :=
  forall name args,
    match inv name args, str name args with
    | TOk o, SOk cs None => cs <> [] /\ o = concat_strings cs
    | TErr e, SErr e' => e = e'
    | TPanic, SPanic => True
    | _, _ => False
    end.

Lemma alike_calls_consistent : forall kind_of inv str handler c,
  tools_alike inv str -> call_consistent kind_of inv str handler c.
Proof.
  intros kind_of inv str handler c H. unfold call_consistent, answer, s_answer, gen_task.
  specialize (H (c_name c) (c_args c)).
  destruct (kind_of (c_name c)) as [[| |]|]; simpl.
  - (* invokable only: streamed by invoking *)
    destruct (inv (c_name c) (c_args c)) as [o|e|]; simpl; auto.
    split; [discriminate|]. simpl. symmetry. apply append_nil_r_str.
  - (* streamable only: invoked by concatenating *)
    destruct (inv (c_name c) (c_args c)) as [o|e|]; destruct (str (c_name c) (c_args c)) as [cs [tl|]|e'|];
      simpl; try contradiction; auto.
    destruct H as [Hne _]. destruct cs; [congruence|]. split; [discriminate|reflexivity].
  - destruct (inv (c_name c) (c_args c)) as [o|e|]; destruct (str (c_name c) (c_args c)) as [cs [tl|]|e'|];
      simpl; try contradiction; auto.
  - destruct handler as [h|]; simpl; auto.
    destruct (h (c_name c) (c_args c)) as [o|e|]; simpl; auto.
    split; [discriminate|]. simpl. symmetry. apply append_nil_r_str.
Qed.

(* the canonical interleaving the correspondence check uses (tool 0's stream to its end, then
   tool 1's, ...) is complete on error-free sources *)
Lemma seq_sched_drains : forall srcs, tails_none srcs -> drained (merge_rest (seq_sched srcs) srcs) = true.
Proof. exact seq_sched_complete. Qed.

(* ---- a run depends on the tools node only through its answers ------------------------------ *)
Section Ext.
  Variable tn tn' : list call -> res (list tmsg).
  Variable tns tns' : list call -> res (list string * list emitted * option N).
  Variable rd : string -> bool.
  Variable rd_nonempty : bool.
  Variable modifier : list msg -> list msg.
  Variable visible : call -> bool.
  Variable checker : list chunk -> bool.

  Hypothesis Htn : forall calls, tn calls = tn' calls.
  Hypothesis Htns : forall calls, tns calls = tns' calls.

  Lemma agent_loop_ext : forall md fuel script t s,
    agent_loop tn tns rd rd_nonempty modifier visible checker md fuel script t s
    = agent_loop tn' tns' rd rd_nonempty modifier visible checker md fuel script t s.
  Proof.
    intros md. induction fuel as [|fuel IH]; intros script t s; [reflexivity|].
    destruct t as [[input| |]|m|o|]; simpl; try reflexivity.
    - f_equal. destruct script as [|[|content calls chunks] script']; try reflexivity.
      destruct (delivered md content calls chunks).
      + f_equal. destruct (checker _); [apply IH|reflexivity].
      + destruct (checker _); [apply IH|reflexivity].
    - f_equal.
      assert (Ho : tools_out tn tns md (m_calls m) = tools_out tn' tns' md (m_calls m)).
      { unfold tools_out. destruct md; [rewrite Htn|rewrite Htns]; reflexivity. }
      rewrite Ho. destruct (tools_out tn' tns' md (m_calls m)) as [o| |]; try reflexivity.
      f_equal.
      destruct rd_nonempty; [destruct (rd_call_index rd (m_calls m))|]; apply IH.
  Qed.

  Theorem agent_run_ext : forall md max_steps script input,
    agent_run tn tns rd rd_nonempty modifier visible checker md max_steps script input
    = agent_run tn' tns' rd rd_nonempty modifier visible checker md max_steps script input.
  Proof. intros. unfold agent_run. apply agent_loop_ext. Qed.
End Ext.

(* the tools of a round finish in any order (the goroutines of parallelRunToolCall, the merge of
   their streams picks frames as they come): model inputs, rounds, messages and outcome of the run
   are the same for every completion order, in both modes *)
Theorem completion_order_irrelevant :
  forall kind_of inv str handler pi1 pi1' pi2 pi2' sched_of rd rd_nonempty modifier visible checker md max_steps script input,
    (forall calls, Permutation (pi1 calls) (seq 0 (List.length calls))) ->
    (forall calls, Permutation (pi1' calls) (seq 0 (List.length calls))) ->
    (forall calls, Permutation (pi2 calls) (seq 0 (List.length calls))) ->
    (forall calls, Permutation (pi2' calls) (seq 0 (List.length calls))) ->
    agent_run (node_tn kind_of inv str handler pi1) (node_tns kind_of inv str handler pi1' sched_of)
              rd rd_nonempty modifier visible checker md max_steps script input
    = agent_run (node_tn kind_of inv str handler pi2) (node_tns kind_of inv str handler pi2' sched_of)
                rd rd_nonempty modifier visible checker md max_steps script input.
Proof.
  intros. apply agent_run_ext; intros calls; unfold node_tn, node_tns, tools_stream_frames.
  - destruct (schedule_independent kind_of inv str handler (pi1 calls) (pi2 calls) true calls) as [E _]; auto.
    rewrite E. reflexivity.
  - destruct (schedule_independent kind_of inv str handler (pi1' calls) (pi2' calls) true calls) as [_ E]; auto.
    rewrite E. reflexivity.
Qed.

(* ---- before fix a2b0142: the return-directly call was found by its tool-call id ------------- *)
(* one assistant message calling search and then the return-directly tool calc.  (1) both calls
   carry the same id "x" (a provider that derives the id from something that repeats): Invoke
   answered with SEARCH's result - a tool that is not return-directly -, Stream with the
   concatenation of both results; (2) the calls carry no id: the run did not return directly at
   all.  The code as it is now answers calc's result in both modes in both cases. *)
Definition v0_rd (n : string) : bool := String.eqb n "calc".
Definition v0_calls (id : string) : list call := [mkCall id "search" "a"; mkCall id "calc" "b"].
Definition v0_whole (id : string) : tout := TWhole [("search(a)", id); ("calc(b)", id)].
Definition v0_frames (id : string) : tout :=
  TFrames [id; id] [(0, "search("); (1, "calc("); (0, "a)"); (1, "b)")]%nat None.

Lemma return_directly_by_id_wrong :
  direct_answer_v0 v0_rd (v0_calls "x") (v0_whole "x") = Some (Some ("search(a)", "x"))
  /\ direct_answer_v0 v0_rd (v0_calls "x") (v0_frames "x") = Some (Some ("search(calc(a)b)", "x"))
  /\ direct_answer_v0 v0_rd (v0_calls "") (v0_whole "") = None
  /\ direct_answer v0_rd (v0_calls "x") (v0_whole "x") = Some (Some ("calc(b)", "x"))
  /\ direct_answer v0_rd (v0_calls "x") (v0_frames "x") = Some (Some ("calc(b)", "x"))
  /\ direct_answer v0_rd (v0_calls "") (v0_whole "") = Some (Some ("calc(b)", ""))
  /\ direct_answer v0_rd (v0_calls "") (v0_frames "") = Some (Some ("calc(b)", "")).
Proof. vm_compute. repeat split; reflexivity. Qed.

(* Generate = Stream for the whole agent over compose.ToolsNode with tools behaving alike *)
Theorem generate_stream_agree_alike :
  forall kind_of inv str handler pi_of pi_of' rd rd_nonempty modifier visible script max_steps input,
    (forall calls, Permutation (pi_of calls) (seq 0 (List.length calls))) ->
    (forall calls, Permutation (pi_of' calls) (seq 0 (List.length calls))) ->
    tools_alike inv str ->
    Forall chunking_valid script ->
    agent_run (node_tn kind_of inv str handler pi_of) (node_tns kind_of inv str handler pi_of' seq_sched)
              rd rd_nonempty modifier visible exact_checker Stream max_steps script input
    = agent_run (node_tn kind_of inv str handler pi_of) (node_tns kind_of inv str handler pi_of' seq_sched)
                rd rd_nonempty modifier visible exact_checker Generate max_steps script input.
Proof.
  intros kind_of inv str handler pi_of pi_of' rd rdn modifier visible script max_steps input P P' Ha Hv.
  apply generate_stream_agree_exact_checker; auto.
  apply Forall_forall. intros s _. destruct s as [|content calls chunks]; simpl; auto.
  intros Hne. apply tools_node_exact_on_consistent_tools; auto.
  - apply Forall_forall. intros c _. apply alike_calls_consistent. exact Ha.
  - exact seq_sched_drains.
Qed.

(* ... and with the DEFAULT first-chunk checker outside the known finding F-C18 *)
Theorem generate_stream_agree_default_alike :
  forall kind_of inv str handler pi_of pi_of' rd rd_nonempty modifier visible script max_steps input,
    (forall calls, Permutation (pi_of calls) (seq 0 (List.length calls))) ->
    (forall calls, Permutation (pi_of' calls) (seq 0 (List.length calls))) ->
    tools_alike inv str ->
    Forall chunking_valid script ->
    Forall tool_calls_first script ->
    agent_run (node_tn kind_of inv str handler pi_of) (node_tns kind_of inv str handler pi_of' seq_sched)
              rd rd_nonempty modifier visible default_checker Stream max_steps script input
    = agent_run (node_tn kind_of inv str handler pi_of) (node_tns kind_of inv str handler pi_of' seq_sched)
                rd rd_nonempty modifier visible default_checker Generate max_steps script input.
Proof.
  intros kind_of inv str handler pi_of pi_of' rd rdn modifier visible script max_steps input P P' Ha Hv Hf.
  apply generate_stream_agree_default; auto.
  apply Forall_forall. intros s _. destruct s as [|content calls chunks]; simpl; auto.
  intros Hne. apply tools_node_exact_on_consistent_tools; auto.
  - apply Forall_forall. intros c _. apply alike_calls_consistent. exact Ha.
  - exact seq_sched_drains.
Qed.
