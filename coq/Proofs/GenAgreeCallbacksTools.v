(* Proofs/GenAgreeCallbacksTools.v — translator tie "c10_tools" (property C10): the per-tool-call callback glue of
   compose/tool_node.go, re-read by tools/go2v on every run (coq/Gen/CallbacksToolCalls.v), IS the model's
   [call_ops] (Model/Callbacks.v):

     gen_tool_call_agrees       a ToolsNode called in either mode creates, per tool call, the call's context from
                                ITS OWN context with ReuseHandlers and the TOOL's run info (name, implementation
                                type, component), and calls the tool's runnable packer in that mode on it: the
                                first operation of [call_ops], followed by what the packer fires
                                (gen_call_ops_agree of GenAgreeCallbacksTables.v)
     gen_tool_packers_agree     every runnable packer of a tool injects the callbacks exactly when the tool does not
                                fire them itself (also for a call answered by the UnknownToolsHandler: F-C10c)
     gen_tool_calls_share_no_context   every parallel tool call is run on the ToolsNode's context and its own task

   A run info taken from elsewhere, a context derived otherwise, an entry wired to the other mode, a packer without
   injection make these fail. *)
From Coq Require Import List String NArith Bool.
From Eino Require Import Base.Util Base.GoSlice Model.Callbacks Model.CallbacksToolsGenLib.
From Eino Require Gen.CallbacksToolCalls.
Import ListNotations.

Module TC := Gen.CallbacksToolCalls.

Theorem gen_tool_call_agrees :
  forall is_stream tn cu cinf natives fails,
    tn_call_sem TC.tool_node_modes TC.tool_call_entries is_stream tn cu cinf = Some (OReuse tn cu cinf, is_stream) /\
    call_ops is_stream tn (cu, cinf, natives, fails) =
      OReuse tn cu cinf ::
      [OOn cu (start_timing_of (pick_native is_stream natives));
       OOn cu (if fails then TError else end_timing_of (pick_native is_stream natives))].
Proof. intros [] tn cu cinf natives fails; split; reflexivity. Qed.
Print Assumptions gen_tool_call_agrees.

Theorem gen_tool_packers_agree :
  TC.tool_packers <> [] /\ forallb packer_injects_iff_not_self TC.tool_packers = true.
Proof. split; [discriminate|reflexivity]. Qed.
Print Assumptions gen_tool_packers_agree.

Theorem gen_tool_calls_share_no_context :
  TC.tool_run_calls <> [] /\ forallb (run_call_on_own_ctx TC.tool_go_args) TC.tool_run_calls = true.
Proof. split; [discriminate|reflexivity]. Qed.
Print Assumptions gen_tool_calls_share_no_context.

(* non-vacuity of the meaning: the code as it was before db1b29b (the unknown tool's packer built without
   injection for a meta that does not fire callbacks itself) does not satisfy it, nor does an entry that takes
   the run info's type from the component kind *)
Example tool_tie_meaning_discriminates :
  packer_injects_iff_not_self ("newUnknownToolTask", "false", "false")%string = false /\
  tc_sem ("callbacks.ReuseHandlers",
          [("Component", "task.meta.component"); ("Name", "task.name"); ("Type", "string(task.meta.component)")],
          "Stream", "task.r(ctx,task.arg,opts...)")%string 1%N 2%N 3%N = None.
Proof. split; reflexivity. Qed.
