(* Proofs/StreamOnce.v — close propagation (Model/Stream.v, property C08): when a reader is
   closed, exactly its own streams and child slots are closed, and the source of every copy
   parent whose last child this was — each exactly once (closeRecv never hits a closed
   channel); when every reader derived from a stream is closed the stream is receive-closed,
   so the writer's next send returns closed. *)
From Eino Require Import Base.Util Model.Stream Proofs.Stream Proofs.StreamRel Proofs.StreamWf Proofs.StreamClose Proofs.StreamLink Proofs.StreamSem.
From Coq Require Import Lia Permutation.

(* every stream's closeRecv count stays, or goes from 0 to 1 *)
Definition once (st st' : store) : Prop :=
  forall sid s', nth_error (streams st') sid = Some s' ->
    exists s, nth_error (streams st) sid = Some s
      /\ (s_rclosed s' = s_rclosed s \/ (s_rclosed s = 0 /\ s_rclosed s' = 1)).

Lemma once_refl : forall st, once st st.
Proof. intros st sid s H. exists s. auto. Qed.

Definition PK_below (pb : nat) (st : store) : Prop :=
  forall q Q, q < pb -> nth_error (parents st) q = Some Q ->
    forall r, In r (refs (p_src Q)) -> rclosed st r -> all_closed Q.

Lemma close_streams_exact : forall sids st c st',
  close_streams st sids = (c, st') -> NoDup sids ->
  (forall sid s, In sid sids -> nth_error (streams st) sid = Some s -> s_rclosed s = 0) ->
  c <> ClPanic
  /\ forall sid s', nth_error (streams st') sid = Some s' ->
       exists s, nth_error (streams st) sid = Some s
         /\ (s_rclosed s' = s_rclosed s \/ (s_rclosed s = 0 /\ s_rclosed s' = 1))
         /\ (~ In sid sids -> s_rclosed s' = s_rclosed s).
Proof.
  induction sids as [|sid l IH]; intros st c st' H Hnd Hopen; cbn [close_streams] in H.
  - inversion H; subst. split; [discriminate|]. intros sid s' Hs. exists s'. auto.
  - inversion Hnd; subst.
    destruct (nth_error (streams st) sid) as [s|] eqn:Es.
    2:{ inversion H; subst. split; [discriminate|]. intros sid0 s' Hs. exists s'. auto. }
    assert (Hr0 : s_rclosed s = 0) by (apply (Hopen sid s); auto; left; reflexivity).
    unfold stream_close_recv in H. rewrite Hr0 in H. simpl in H.
    set (s1 := mkS (s_cap s) (s_buf s) (s_sclosed s) 1 (s_user s) (s_sent s) (s_deliv s)) in *.
    destruct (IH _ _ _ H H3) as [A B].
    { intros sid' s0 Hin Hs0. simpl in Hs0.
      assert (Hne : sid <> sid') by (intros ->; contradiction).
      rewrite nth_error_upd_neq in Hs0 by exact Hne. apply (Hopen sid' s0); auto. right. exact Hin. }
    split; auto. intros sid0 s' Hs'. destruct (B _ _ Hs') as (x & Hx & Hrel & Hout). simpl in Hx.
    destruct (Nat.eq_dec sid sid0) as [<-|Hne].
    + rewrite nth_error_upd_eq in Hx by (apply nth_error_Some; congruence). inversion Hx; subst x.
      exists s. split; auto. rewrite (Hout H2). simpl. split; [right; auto|]. intros Hn. exfalso. apply Hn. left. reflexivity.
    + rewrite nth_error_upd_neq in Hx by exact Hne. exists x. split; auto. split; auto.
      intros Hn. apply Hout. intros Hin. apply Hn. right. exact Hin.
Qed.

Lemma once_trans_id : forall a b c, (streams b = streams a) -> once b c -> once a c.
Proof. intros a b c E H sid s' Hs. destruct (H _ _ Hs) as (s & Hb & R). rewrite E in Hb. eauto. Qed.

Lemma not_rclosed_0 : forall st sid s, ~ rclosed st (RS sid) -> nth_error (streams st) sid = Some s -> s_rclosed s = 0.
Proof.
  intros st sid s Hn Hs. destruct (s_rclosed s) eqn:E; auto. exfalso. apply Hn. simpl. exists s. split; auto. lia.
Qed.

(* Close of a reader none of whose references is closed: no closeRecv on a closed channel *)
Lemma Close_once : forall st t c st', Close st t c st' ->
  forall pb, acyclic st -> pcnt st -> PK_below pb st ->
    Forall (ref_below pb) (refs t) -> NoDup (refs t ++ prefs_below pb st) ->
    (forall r, In r (refs t) -> ~ rclosed st r) ->
    c <> ClPanic /\ once st st'.
Proof.
  intros st t c st' H. induction H; intros pb Hac Hp HK Hbel Hnd Hopen.
  - split; [discriminate | apply once_refl].
  - (* str *)
    destruct (close_streams_exact _ _ _ _ H) as [A B].
    + repeat constructor. intros [].
    + intros sid0 s [<-|[]] Hs. apply (not_rclosed_0 st sid s); auto. apply Hopen. left. reflexivity.
    + split; auto. intros sid0 s' Hs'. destruct (B _ _ Hs') as (s & Hs & R & _). eauto.
  - (* mul *)
    destruct (close_streams_exact _ _ _ _ H) as [A B].
    + apply NoDup_map_RS. simpl in Hnd. apply (NoDup_app_elim _ _ _ Hnd).
    + intros sid0 s Hin Hs. apply (not_rclosed_0 st sid0 s); auto. apply Hopen. simpl. apply in_map. exact Hin.
    + split; auto. intros sid0 s' Hs'. destruct (B _ _ Hs') as (s & Hs & R & _). eauto.
  - (* conv *) apply (IHClose pb); auto.
  - (* child again *) split; [discriminate | apply once_refl].
  - (* last child *)
    assert (Hpb : p < pb) by (inversion Hbel; subst; auto).
    set (P2 := src_closed (close_child P i)) in *. set (st2 := set_parent st p P2) in *.
    destruct (NoDup_parent_src _ _ _ _ _ Hnd H Hpb) as [Hnd1 Hdis].
    assert (Hti : ~ In (RC p i) (refs (p_src P)) /\ ~ In (RC p i) (prefs_below p st)) by (apply Hdis; left; reflexivity).
    assert (Hlow : forall q, q < p -> nth_error (parents st2) q = nth_error (parents st) q).
    { intros q Hq. unfold st2. simpl. apply nth_error_upd_neq. lia. }
    assert (Hpre2 : prefs_below p st2 = prefs_below p st).
    { unfold prefs_below, st2. simpl. f_equal.
      clear - H. revert H. generalize (parents st) as l. intros l. revert p.
      induction l as [|a l IHl]; intros [|p] Hn; simpl in *; auto; try discriminate. f_equal. apply IHl. exact Hn. }
    assert (Hrc2 : forall r, r <> RC p i -> rclosed st2 r -> rclosed st r).
    { intros r Hne Hr. destruct (rclosed_close_child st p P i r H P2 eq_refl Hr) as [->|X]; [congruence | exact X]. }
    destruct (IHClose p) as [A B].
    + (* acyclic st2 *)
      intros q Q HQ. unfold st2 in HQ. simpl in HQ. destruct (nth_error_upd _ _ _ _ _ _ HQ) as [[-> ->]|[Hne HQ0]].
      * simpl. eapply Hac; eauto.
      * eapply Hac; eauto.
    + apply pcnt_set_parent; auto. simpl. rewrite (Hp _ _ H). f_equal. symmetry. eapply count_none_upd_close; eauto.
    + (* PK_below p st2 *)
      intros q Q Hq HQ r Hin Hr. rewrite Hlow in HQ by exact Hq.
      apply (HK q Q ltac:(lia) HQ r Hin). apply Hrc2; auto. intros ->. apply (proj2 Hti). eapply prefs_below_in; eauto.
    + apply (Hac _ _ H).
    + rewrite Hpre2. exact Hnd1.
    + intros r Hin Hr. apply Hrc2 in Hr; [|intros ->; apply (proj1 Hti); exact Hin].
      pose proof (HK p P Hpb H r Hin Hr) as Hall. unfold all_closed in Hall.
      pose proof (Hp _ _ H) as Hcnt. pose proof (count_none_some _ _ _ H0). lia.
    + split; [exact A | exact B].
  - (* not last *) split; [discriminate|]. intros sid s' Hs'. exists s'. simpl in Hs'. auto.
  - (* stuck *) destruct H as [-> | ->]; (split; [discriminate | apply once_refl]).
Qed.

(* ------------------------------------------------------------------ whole states *)

Definition rcl1 (st : store) : Prop := forall sid s, nth_error (streams st) sid = Some s -> s_rclosed s <= 1.

(* closeRecv counts: unchanged, 0 -> 1, or a new stream with count 0 *)
Definition onceN (st st' : store) : Prop :=
  forall sid s', nth_error (streams st') sid = Some s' ->
    (exists s, nth_error (streams st) sid = Some s
       /\ (s_rclosed s' = s_rclosed s \/ (s_rclosed s = 0 /\ s_rclosed s' = 1)))
    \/ s_rclosed s' = 0.

Lemma rcl1_onceN : forall st st', onceN st st' -> rcl1 st -> rcl1 st'.
Proof.
  intros st st' Ho H sid s' Hs'. destruct (Ho _ _ Hs') as [(s & Hs & [E|[E0 E1]])|E]; try lia.
  rewrite E. eapply H; eauto.
Qed.

Lemma onceN_of_once : forall st st', once st st' -> onceN st st'.
Proof. intros st st' H sid s' Hs'. left. apply H. exact Hs'. Qed.

Lemma onceN_store_rel : forall st st', store_rel st st' -> onceN st st'.
Proof.
  intros st st' [H1 _] sid s' Hs'. left. destruct (Forall2_nth_r _ _ _ _ _ _ H1 Hs') as (s & Hs & (_ & _ & E & _)).
  exists s. auto.
Qed.

Lemma onceN_set_stream : forall st sid s s', nth_error (streams st) sid = Some s ->
  s_rclosed s' = s_rclosed s -> onceN st (set_stream st sid s').
Proof.
  intros st sid s s' Hn E sid0 x Hx. left. simpl in Hx. destruct (Nat.eq_dec sid sid0) as [<-|Hne].
  - rewrite nth_error_upd_eq in Hx by (apply nth_error_Some; congruence). inversion Hx; subst. exists s. auto.
  - rewrite nth_error_upd_neq in Hx by exact Hne. exists x. auto.
Qed.

Lemma onceN_ext : forall st st' ns, streams st' = streams st ++ ns ->
  Forall (fun s => s_rclosed s = 0) ns -> onceN st st'.
Proof.
  intros st st' ns E Hns sid s' Hs'. rewrite E in Hs'. destruct (nth_error_app_new _ _ _ _ _ Hs') as [H|[_ Hin]].
  - left. exists s'. auto.
  - right. rewrite Forall_forall in Hns. apply Hns. exact Hin.
Qed.

Lemma onceN_trans_same : forall a b c, onceN a b ->
  (forall sid s', nth_error (streams c) sid = Some s' -> exists s, nth_error (streams b) sid = Some s /\ s_rclosed s' = s_rclosed s) ->
  onceN a c.
Proof.
  intros a b c H1 H2 sid s' Hs'. destruct (H2 _ _ Hs') as (s & Hs & E). rewrite E. apply (H1 _ _ Hs).
Qed.

Lemma onceN_same_streams : forall st st', streams st' = streams st -> onceN st st'.
Proof. intros st st' E sid s' Hs'. left. rewrite E in Hs'. exists s'. auto. Qed.

Definition op_close_once (G : state) (o : op) : Prop :=
  match o with OClose h => handle_unclosed G h | _ => True end.

Lemma PK_below_of_kinv : forall G, kinv G -> PK_below (List.length (parents (st_store G))) (st_store G).
Proof.
  intros G HK q Q _ HQ r Hin Hc. destruct (HK (RtP q) r) as (Q0 & HQ0 & Ha); auto.
  - simpl. rewrite HQ. exact Hin.
  - congruence.
Qed.

(* closing the reader of a root that is not closed yet *)
Lemma close_root_once : forall G ro t c st1,
  wf G -> pcnt (st_store G) -> kinv G ->
  (forall q, ro <> RtP q) -> root_refs G ro = refs t -> ~ root_closed G ro ->
  Close (st_store G) t c st1 ->
  c <> ClPanic /\ once (st_store G) st1.
Proof.
  intros G ro t c st1 HW Hp HK Hnp Hrefs Hnc HC.
  set (pb := List.length (parents (st_store G))).
  apply (Close_once _ _ _ _ HC pb).
  - apply HW.
  - exact Hp.
  - apply PK_below_of_kinv. exact HK.
  - destruct HW as (_ & W2 & _). apply Forall_forall. intros r0 Hr0. apply ref_ok_below.
    rewrite Forall_forall in W2. apply W2. eapply root_refs_in_all. rewrite Hrefs. exact Hr0.
  - unfold pb. rewrite prefs_below_all. rewrite <- Hrefs. apply root_NoDup; auto.
  - intros r Hin Hc. apply Hnc. apply (HK ro r); auto. rewrite Hrefs. exact Hin.
Qed.

Lemma do_op_once : forall fuel G o b G',
  do_op fuel G o = (b, G') -> Inv G -> op_close_once G o ->
  onceN (st_store G) (st_store G') /\ (forall c, b = BClose c -> c <> ClPanic).
Proof.
  intros fuel G o b G' H (HS & HW & Hp & HK & HL) Hpre.
  destruct o as [cap | xs | h n | hs | h f | sid x | sid | h ch | h | k ch]; simpl in H.
  - inversion H; subst. split; [|intros c E; discriminate]. apply (onceN_ext _ _ [new_stream cap true]); auto.
  - inversion H; subst. split; [|intros c E; discriminate]. apply onceN_of_once. apply once_refl.
  - assert (X : onceN (st_store G) (st_store G') /\ forall c, b = BClose c -> c <> ClPanic); [|exact X].
    destruct (live_rd G h) as [t|] eqn:El; [|inversion H; subst; split; [apply onceN_of_once, once_refl | intros c E; discriminate]].
    destruct (Nat.ltb n 2); [inversion H; subst; split; [apply onceN_of_once, once_refl | intros c E; discriminate]|].
    destruct t; inversion H; subst; clear H; (split; [|intros c E; discriminate]); simpl; rewrite ?consume_store;
      apply onceN_same_streams; reflexivity.
  - destruct hs as [|h0 [|h1 hs']]; [inversion H; subst; split; [apply onceN_of_once, once_refl | intros c E; discriminate]| |].
    { destruct (live_rd G h0); inversion H; subst; (split; [apply onceN_of_once, once_refl | intros c E; discriminate]). }
    destruct (negb (nodupb (h0 :: h1 :: hs'))); [inversion H; subst; split; [apply onceN_of_once, once_refl | intros c E; discriminate]|].
    destruct (live_rds G (h0 :: h1 :: hs')) as [ts|] eqn:El; [|inversion H; subst; split; [apply onceN_of_once, once_refl | intros c E; discriminate]].
    rewrite consume_all_store, consume_all_fwds in H.
    destruct (merge_collect _ _ ts [] []) as [[[st1 fw1] ss] arr] eqn:Em.
    destruct (merge_collect_spec _ _ _ _ _ _ _ _ _ Em) as (P1 & k0 & S1 & D1 & Pm).
    assert (O1 : onceN (st_store G) st1).
    { apply (onceN_ext _ _ _ S1). apply Forall_forall. intros s Hs. apply repeat_spec in Hs. subst. reflexivity. }
    destruct ss as [|s0 ss']; destruct arr as [|a0 arr']; inversion H; subst; clear H; (split; [|intros c E; discriminate]); simpl; auto.
    apply (onceN_ext _ _ (repeat (new_stream 5 false) k0 ++ [array_stream (a0 :: arr')])).
    + simpl. rewrite S1. rewrite <- app_assoc. reflexivity.
    + apply Forall_app. split; [|repeat constructor]. apply Forall_forall. intros s Hs. apply repeat_spec in Hs. subst. reflexivity.
  - destruct (live_rd G h) as [t|] eqn:El; inversion H; subst; (split; [|intros c E; discriminate]); simpl; rewrite ?consume_store;
      apply onceN_same_streams; reflexivity.
  - destruct (nth_error (streams (st_store G)) sid) as [s|] eqn:Es; [|inversion H; subst; split; [apply onceN_of_once, once_refl | intros c E; discriminate]].
    destruct (negb (s_user s)); [inversion H; subst; split; [apply onceN_of_once, once_refl | intros c E; discriminate]|].
    destruct (stream_send s x) as [r s'] eqn:E. inversion H; subst. split; [|intros c E0; discriminate]. simpl.
    eapply onceN_set_stream; eauto.
    unfold stream_send in E. destruct (Nat.ltb 0 (s_rclosed s)); [inversion E; subst; auto|].
    destruct (s_sclosed s); [inversion E; subst; auto|]. destruct (Nat.ltb _ _); inversion E; subst; auto.
  - destruct (nth_error (streams (st_store G)) sid) as [s|] eqn:Es; [|inversion H; subst; split; [apply onceN_of_once, once_refl | intros c E; discriminate]].
    destruct (negb (s_user s)); [inversion H; subst; split; [apply onceN_of_once, once_refl | intros c E; discriminate]|].
    destruct (stream_close_send s) as [r s'] eqn:E. inversion H; subst. split; [|intros c E0; discriminate]. simpl.
    eapply onceN_set_stream; eauto. unfold stream_close_send in E. destruct (s_sclosed s); inversion E; subst; auto.
  - destruct (nth_error (st_handles G) h) as [Hh|] eqn:Eh; [|inversion H; subst; split; [apply onceN_of_once, once_refl | intros c E; discriminate]].
    destruct (negb (h_live Hh)); [inversion H; subst; split; [apply onceN_of_once, once_refl | intros c E; discriminate]|].
    destruct (recv fuel (st_store G) (h_rd Hh) ch) as [[[r st1] t1] ch1] eqn:Er.
    inversion H; subst. split; [|intros c E; discriminate]. simpl. apply recv_Recv in Er.
    apply onceN_store_rel. apply (Recv_static _ _ _ _ _ Er).
  - (* OClose *)
    destruct (nth_error (st_handles G) h) as [Hh|] eqn:Eh; [|inversion H; subst; split; [apply onceN_of_once, once_refl | intros c E; discriminate]].
    destruct (h_live Hh) eqn:Elv; cbn [negb] in H; [|inversion H; subst; split; [apply onceN_of_once, once_refl | intros c E; discriminate]].
    destruct (close_rd fuel (st_store G) (h_rd Hh)) as [r st1] eqn:Er.
    inversion H; subst; clear H. apply close_Close in Er. simpl in Hpre.
    destruct (close_root_once G (RtH h) _ _ _ HW Hp HK ltac:(intros q; discriminate)
                ltac:(simpl; rewrite Eh; unfold hrefs; rewrite Elv; reflexivity)
                ltac:(intros (H0 & E0 & C0); rewrite (Hpre _ E0) in C0; discriminate) Er) as [A B].
    split; [apply onceN_of_once; exact B|]. intros c E. inversion E; subst. exact A.
  - (* OFwd *)
    destruct (nth_error (st_fwds G) k) as [F|] eqn:EF; [|inversion H; subst; split; [apply onceN_of_once, once_refl | intros c E; discriminate]].
    destruct (f_st F) as [|x| |] eqn:Est.
    + destruct (recv fuel (st_store G) (f_src F) ch) as [[[r st1] src1] ch1] eqn:Er.
      apply recv_Recv in Er. pose proof (onceN_store_rel _ _ (proj1 (Recv_static _ _ _ _ _ Er))) as O1.
      destruct r; try (inversion H; subst; split; [exact O1 | intros c E; discriminate]).
      destruct (nth_error (streams st1) (f_dst F)) as [d|] eqn:Ed; [|inversion H; subst; split; [apply onceN_of_once, once_refl | intros c E; discriminate]].
      destruct (stream_close_send d) as [r0 d'] eqn:Ec. inversion H; subst. split; [|intros c E; discriminate]. simpl.
      eapply onceN_trans_same; [exact O1|]. intros sid s' Hs'. simpl in Hs'.
      destruct (Nat.eq_dec (f_dst F) sid) as [<-|Hne].
      * rewrite nth_error_upd_eq in Hs' by (apply nth_error_Some; congruence). inversion Hs'; subst s'. exists d. split; auto.
        unfold stream_close_send in Ec. destruct (s_sclosed d); inversion Ec; subst; auto.
      * rewrite nth_error_upd_neq in Hs' by exact Hne. eauto.
    + destruct (nth_error (streams (st_store G)) (f_dst F)) as [d|] eqn:Ed; [|inversion H; subst; split; [apply onceN_of_once, once_refl | intros c E; discriminate]].
      destruct (stream_send d x) as [r d'] eqn:Es.
      destruct r; try (inversion H; subst; split; [apply onceN_of_once, once_refl | intros c E; discriminate]).
      * inversion H; subst. split; [|intros c E; discriminate]. simpl. eapply onceN_set_stream; eauto.
        unfold stream_send in Es. destruct (Nat.ltb 0 (s_rclosed d)); [inversion Es|].
        destruct (s_sclosed d); [inversion Es|]. destruct (Nat.ltb _ _); inversion Es; subst; auto.
      * destruct (stream_close_send d) as [r0 d''] eqn:Ec. inversion H; subst. split; [|intros c E; discriminate]. simpl.
        eapply onceN_set_stream; eauto. unfold stream_close_send in Ec. destruct (s_sclosed d); inversion Ec; subst; auto.
    + destruct (close_rd fuel (st_store G) (f_src F)) as [r st1] eqn:Er.
      inversion H; subst; clear H. apply close_Close in Er.
      destruct (close_root_once G (RtF k) _ _ _ HW Hp HK ltac:(intros q; discriminate)
                  ltac:(simpl; rewrite EF; reflexivity)
                  ltac:(intros (F0 & E0 & C0); rewrite EF in E0; inversion E0; subst F0; congruence) Er) as [A B].
      split; [apply onceN_of_once; exact B|]. intros c E. discriminate.
    + inversion H; subst. split; [apply onceN_of_once, once_refl | intros c E; discriminate].
Qed.

(* ------------------------------------------------------------------ the source of a copy parent is closed exactly when the last child closes *)

Definition psc (st : store) : Prop :=
  forall q Q, nth_error (parents st) q = Some Q ->
    p_srcclosed Q = if Nat.eqb (p_closed Q) (List.length (p_cur Q)) then 1 else 0.

Lemma psc_store_rel : forall st st', store_rel st st' -> psc st -> psc st'.
Proof.
  intros st st' [_ H2] Hp q Q' HQ'. destruct (Forall2_nth_r _ _ _ _ _ _ H2 HQ') as (Q & HQ & (_ & Hl & Hc & Hs & _)).
  rewrite Hs, Hc, Hl. eapply Hp; eauto.
Qed.

Lemma psc_same_parents : forall st st', parents st' = parents st -> psc st -> psc st'.
Proof. intros st st' E H q Q HQ. rewrite E in HQ. eapply H; eauto. Qed.

Lemma psc_set_parent : forall st p P', psc st ->
  p_srcclosed P' = (if Nat.eqb (p_closed P') (List.length (p_cur P')) then 1 else 0) -> psc (set_parent st p P').
Proof.
  intros st p P' Hp HP' q Q HQ. simpl in HQ. destruct (nth_error_upd _ _ _ _ _ _ HQ) as [[-> ->]|[Hn HQ0]]; auto.
  eapply Hp; eauto.
Qed.

Lemma Close_psc : forall st t c st', Close st t c st' -> pcnt st -> psc st -> psc st'.
Proof.
  intros st t c st' H. induction H; intros Hp Hs; auto.
  - eapply psc_same_parents; [eapply close_streams_parents; eauto | exact Hs].
  - eapply psc_same_parents; [eapply close_streams_parents; eauto | exact Hs].
  - (* last child *)
    assert (Hlt : p_closed P < List.length (p_cur P)).
    { rewrite (Hp _ _ H). eapply count_none_some; eauto. }
    apply IHClose.
    + apply pcnt_set_parent; auto. simpl. rewrite (Hp _ _ H). f_equal. symmetry. eapply count_none_upd_close; eauto.
    + apply psc_set_parent; auto.
      change (p_srcclosed (src_closed (close_child P i))) with (S (p_srcclosed P)).
      change (p_closed (src_closed (close_child P i))) with (p_closed (close_child P i)).
      change (p_cur (src_closed (close_child P i))) with (p_cur (close_child P i)).
      rewrite H1. rewrite Nat.eqb_refl.
      rewrite (Hs _ _ H). destruct (Nat.eqb_spec (p_closed P) (List.length (p_cur P))); [lia | reflexivity].
  - (* not last *)
    assert (Hlt : p_closed P < List.length (p_cur P)).
    { rewrite (Hp _ _ H). eapply count_none_some; eauto. }
    apply psc_set_parent; auto.
    change (p_srcclosed (close_child P i)) with (p_srcclosed P). rewrite (Hs _ _ H).
    destruct (Nat.eqb_spec (p_closed P) (List.length (p_cur P))); [lia|].
    destruct (Nat.eqb_spec (p_closed (close_child P i)) (List.length (p_cur (close_child P i)))); [contradiction | reflexivity].
Qed.

Lemma psc_add_parent : forall st t n, 2 <= n -> psc st -> psc (add_parent st (new_parent t n)).
Proof.
  intros st t n Hn Hp q Q HQ. simpl in HQ. destruct (nth_error_app_new _ _ _ _ _ HQ) as [E|[_ [<-|[]]]].
  - eapply Hp; eauto.
  - simpl. rewrite repeat_length. destruct n as [|[|n]]; try lia; reflexivity.
Qed.

Lemma do_op_psc : forall fuel G o b G',
  do_op fuel G o = (b, G') -> pcnt (st_store G) -> psc (st_store G) -> psc (st_store G').
Proof.
  intros fuel G o b G' H Hp Hs.
  destruct o as [cap | xs | h n | hs | h f | sid x | sid | h ch | h | k ch]; simpl in H.
  - inversion H; subst. exact Hs.
  - inversion H; subst. exact Hs.
  - destruct (live_rd G h) as [t|] eqn:El; [|inversion H; subst; auto].
    destruct (Nat.ltb n 2) eqn:En; [inversion H; subst; auto|]. apply Nat.ltb_ge in En.
    destruct t; inversion H; subst; clear H; simpl; rewrite ?consume_store; auto; apply psc_add_parent; auto.
  - destruct hs as [|h0 [|h1 hs']]; [inversion H; subst; auto| |].
    { destruct (live_rd G h0); inversion H; subst; auto. }
    destruct (negb (nodupb (h0 :: h1 :: hs'))); [inversion H; subst; auto|].
    destruct (live_rds G (h0 :: h1 :: hs')) as [ts|] eqn:El; [|inversion H; subst; auto].
    rewrite consume_all_store, consume_all_fwds in H.
    destruct (merge_collect _ _ ts [] []) as [[[st1 fw1] ss] arr] eqn:Em.
    destruct (merge_collect_spec _ _ _ _ _ _ _ _ _ Em) as (P1 & _).
    destruct ss as [|s0 ss']; destruct arr as [|a0 arr']; inversion H; subst; clear H; simpl;
      eapply psc_same_parents; eauto.
  - destruct (live_rd G h) as [t|] eqn:El; [|inversion H; subst; auto].
    inversion H; subst. simpl. rewrite consume_store. exact Hs.
  - destruct (nth_error (streams (st_store G)) sid) as [s|] eqn:Es; [|inversion H; subst; auto].
    destruct (negb (s_user s)); [inversion H; subst; auto|].
    destruct (stream_send s x) as [r s'] eqn:E. inversion H; subst. exact Hs.
  - destruct (nth_error (streams (st_store G)) sid) as [s|] eqn:Es; [|inversion H; subst; auto].
    destruct (negb (s_user s)); [inversion H; subst; auto|].
    destruct (stream_close_send s) as [r s'] eqn:E. inversion H; subst. exact Hs.
  - destruct (nth_error (st_handles G) h) as [Hh|] eqn:Eh; [|inversion H; subst; auto].
    destruct (negb (h_live Hh)); [inversion H; subst; auto|].
    destruct (recv fuel (st_store G) (h_rd Hh) ch) as [[[r st1] t1] ch1] eqn:Er.
    inversion H; subst. simpl. apply recv_Recv in Er. eapply psc_store_rel; eauto. apply (Recv_static _ _ _ _ _ Er).
  - destruct (nth_error (st_handles G) h) as [Hh|] eqn:Eh; [|inversion H; subst; auto].
    destruct (negb (h_live Hh)); [inversion H; subst; auto|].
    destruct (close_rd fuel (st_store G) (h_rd Hh)) as [r st1] eqn:Er.
    inversion H; subst. simpl. apply close_Close in Er. eapply Close_psc; eauto.
  - destruct (nth_error (st_fwds G) k) as [F|] eqn:EF; [|inversion H; subst; auto].
    destruct (f_st F) as [|x| |].
    + destruct (recv fuel (st_store G) (f_src F) ch) as [[[r st1] src1] ch1] eqn:Er.
      apply recv_Recv in Er. pose proof (psc_store_rel _ _ (proj1 (Recv_static _ _ _ _ _ Er)) Hs) as Hs1.
      destruct r; try (inversion H; subst; exact Hs1).
      destruct (nth_error (streams st1) (f_dst F)) as [d|] eqn:Ed; [|inversion H; subst; auto].
      destruct (stream_close_send d) as [r0 d'] eqn:Ec. inversion H; subst. exact Hs1.
    + destruct (nth_error (streams (st_store G)) (f_dst F)) as [d|] eqn:Ed; [|inversion H; subst; auto].
      destruct (stream_send d x) as [r d'] eqn:Es.
      destruct r; try (inversion H; subst; auto; fail).
      destruct (stream_close_send d) as [r0 d''] eqn:Ec. inversion H; subst. exact Hs.
    + destruct (close_rd fuel (st_store G) (f_src F)) as [r st1] eqn:Er.
      inversion H; subst. simpl. apply close_Close in Er. eapply Close_psc; eauto.
    + inversion H; subst; auto.
Qed.

(* ------------------------------------------------------------------ runs *)

Definition op_legal1 (G : state) (o : op) : Prop := op_legal G o /\ op_close_once G o.

Fixpoint no_close_panic (bs : list obs) : Prop :=
  match bs with
  | [] => True
  | BClose c :: r => c <> ClPanic /\ no_close_panic r
  | _ :: r => no_close_panic r
  end.

Lemma run_once : forall fuel ops G bs G',
  run fuel G ops = (bs, G') -> run_pre op_legal1 fuel G ops ->
  Inv G -> rcl1 (st_store G) -> psc (st_store G) ->
  Inv G' /\ rcl1 (st_store G') /\ psc (st_store G') /\ no_close_panic bs.
Proof.
  intros fuel. induction ops as [|o r IH]; intros G bs G' H Hpre HI Hr Hs; simpl in H.
  - inversion H; subst. simpl. auto.
  - destruct (do_op fuel G o) as [b G1] eqn:E1. destruct (run fuel G1 r) as [bs2 G2] eqn:E2.
    inversion H; subst. simpl in Hpre. destruct Hpre as [[Hpo Hpc] Hpr]. rewrite E1 in Hpr. simpl in Hpr.
    destruct (do_op_once _ _ _ _ _ E1 HI Hpc) as [O1 O2].
    destruct (IH _ _ _ E2 Hpr) as (A & B & C & D).
    + eapply do_op_Inv; eauto.
    + eapply rcl1_onceN; eauto.
    + eapply do_op_psc; eauto. apply HI.
    + split; [exact A|]. split; [exact B|]. split; [exact C|].
      destruct b as [hs0|r0|r0|c0| |]; simpl; auto.
Qed.

(* ------------------------------------------------------------------ a closed owner has closed everything it owns *)

Lemma rclosed_after_close_streams : forall sids st st',
  close_streams st sids = (ClOk, st') -> forall sid, In sid sids -> rclosed st' (RS sid).
Proof.
  induction sids as [|sid l IH]; intros st st' H sid0 Hin; [inversion Hin|].
  cbn [close_streams] in H. destruct (nth_error (streams st) sid) as [s|] eqn:Es; [|discriminate].
  destruct (stream_close_recv s) as [c0 s0] eqn:Ec. destruct c0; try discriminate.
  destruct Hin as [<-|Hin]; [|eapply IH; eauto].
  apply (rclosed_cstore_mono _ _ _ (close_streams_static _ _ _ _ H)).
  simpl. exists s0. split; [apply nth_error_upd_eq; apply nth_error_Some; congruence|].
  unfold stream_close_recv in Ec. inversion Ec; subst. simpl. lia.
Qed.

Definition KB (st st' : store) : Prop :=
  forall q Q', nth_error (parents st') q = Some Q' -> all_closed Q' ->
    (exists Q, nth_error (parents st) q = Some Q /\ all_closed Q)
    \/ (forall r, In r (refs (p_src Q')) -> rclosed st' r).

Lemma KB_refl : forall st, KB st st.
Proof. intros st q Q HQ Ha. left. eauto. Qed.

Lemma Close_all : forall st t c st', Close st t c st' -> c = ClOk -> pcnt st ->
  (forall r, In r (refs t) -> rclosed st' r) /\ KB st st'.
Proof.
  intros st t c st' H. induction H; intros Hc Hp.
  - split; [intros r0 []| apply KB_refl].
  - subst c. split.
    + intros r [<-|[]]. eapply rclosed_after_close_streams; eauto. left. reflexivity.
    + intros q Q' HQ' Ha. left. rewrite (close_streams_parents _ _ _ _ H) in HQ'. eauto.
  - subst c. split.
    + intros r Hin. simpl in Hin. apply in_map_iff in Hin. destruct Hin as (sid & <- & Hs). eapply rclosed_after_close_streams; eauto.
    + intros q Q' HQ' Ha. left. rewrite (close_streams_parents _ _ _ _ H) in HQ'. eauto.
  - apply IHClose; auto.
  - split; [|apply KB_refl]. intros r [<-|[]]. simpl. eauto.
  - (* last child *)
    set (P2 := src_closed (close_child P i)) in *.
    assert (Hp2 : pcnt (set_parent st p P2)).
    { apply pcnt_set_parent; auto. simpl. rewrite (Hp _ _ H). f_equal. symmetry. eapply count_none_upd_close; eauto. }
    destruct (IHClose Hc Hp2) as [A B].
    pose proof (Close_static _ _ _ _ H2) as SR.
    split.
    + intros r [<-|[]]. apply (rclosed_cstore_mono _ _ _ SR). simpl. exists P2. split.
      * apply nth_error_upd_eq. apply nth_error_Some. congruence.
      * simpl. apply nth_error_upd_eq. apply nth_error_Some. congruence.
    + intros q Q' HQ' Ha. destruct (B q Q' HQ' Ha) as [(Q2 & HQ2 & Ha2)|Hr]; [|right; exact Hr].
      simpl in HQ2. destruct (nth_error_upd _ _ _ _ _ _ HQ2) as [[-> ->]|[Hne HQ0]].
      * right. destruct (Forall2_nth _ _ _ _ _ _ (proj2 SR) HQ2) as (Q1 & HQ1 & (E1 & _)).
        rewrite HQ' in HQ1. inversion HQ1; subst Q1. rewrite E1. exact A.
      * left. eauto.
  - (* not last *)
    split.
    + intros r [<-|[]]. simpl. exists (close_child P i). split.
      * apply nth_error_upd_eq. apply nth_error_Some. congruence.
      * simpl. apply nth_error_upd_eq. apply nth_error_Some. congruence.
    + intros q Q' HQ' Ha. simpl in HQ'. destruct (nth_error_upd _ _ _ _ _ _ HQ') as [[-> ->]|[Hne HQ0]].
      * exfalso. apply H1. exact Ha.
      * left. eauto.
  - subst c. destruct H as [H|H]; discriminate.
Qed.

Definition kconv (G : state) : Prop :=
  forall ro r, root_closed G ro -> In r (root_refs G ro) -> rclosed (st_store G) r.

Definition op_closes_ok (fuel : nat) (G : state) (o : op) : Prop :=
  match o with
  | OClose h => forall H, nth_error (st_handles G) h = Some H -> h_live H = true ->
                  fst (close_rd fuel (st_store G) (h_rd H)) = ClOk
  | OFwd k _ => forall F, nth_error (st_fwds G) k = Some F -> f_st F = FClosing ->
                  fst (close_rd fuel (st_store G) (f_src F)) = ClOk
  | _ => True
  end.

(* a step: roots keep their references; a root that is closed afterwards was closed before,
   or its references are justified directly *)
Lemma kconv_step : forall G G',
  kconv G ->
  (forall r, rclosed (st_store G) r -> rclosed (st_store G') r) ->
  (forall ro r, root_closed G' ro -> In r (root_refs G' ro) ->
     (root_closed G ro /\ In r (root_refs G ro)) \/ rclosed (st_store G') r) ->
  kconv G'.
Proof.
  intros G G' HK Hm Hst ro r Hc Hin. destruct (Hst ro r Hc Hin) as [[A B]|C]; auto.
  apply Hm. apply (HK ro r A B).
Qed.

Lemma rclosed_mono_ext : forall st st', ext st st' ->
  (forall sid s s', nth_error (streams st) sid = Some s -> nth_error (streams st') sid = Some s' -> s_rclosed s <= s_rclosed s') ->
  (forall q Q Q' j, nth_error (parents st) q = Some Q -> nth_error (parents st') q = Some Q' ->
     nth_error (p_cur Q) j = Some None -> nth_error (p_cur Q') j = Some None) ->
  forall r, rclosed st r -> rclosed st' r.
Proof.
  intros st st' [E1 E2] Hs Hp [sid|q j]; simpl.
  - intros (s & Hn & Hc). destruct (E1 _ _ Hn) as (s' & Hn' & _). exists s'. split; auto. specialize (Hs _ _ _ Hn Hn'). lia.
  - intros (Q & HQ & Hc). destruct (E2 _ _ HQ) as (Q' & HQ' & _). exists Q'. split; auto. eapply Hp; eauto.
Qed.

Lemma rclosed_mono_app : forall st st' ns np,
  streams st' = streams st ++ ns -> parents st' = parents st ++ np -> forall r, rclosed st r -> rclosed st' r.
Proof.
  intros st st' ns np Hs Hp [sid|q j]; simpl.
  - intros (s & Hn & Hc). exists s. split; auto. rewrite Hs. rewrite nth_error_app1; auto. apply nth_error_Some. congruence.
  - intros (Q & HQ & Hc). exists Q. split; auto. rewrite Hp. rewrite nth_error_app1; auto. apply nth_error_Some. congruence.
Qed.

(* constructors: no root becomes closed *)
Lemma kconv_constructor_gen : forall G st' fw' hs1 news np nf ns,
  kconv G ->
  streams st' = streams (st_store G) ++ ns ->
  parents st' = parents (st_store G) ++ np ->
  fw' = st_fwds G ++ nf ->
  (forall h0 H', nth_error hs1 h0 = Some H' ->
     exists H, nth_error (st_handles G) h0 = Some H /\ (H' = H \/ h_live H' = false)) ->
  (forall N, In N news -> h_closed N = false) ->
  (forall P, In P np -> ~ all_closed P) ->
  (forall F, In F nf -> f_st F <> FDone) ->
  kconv (mkState st' fw' (hs1 ++ news)).
Proof.
  intros G st' fw' hs1 news np nf ns HK Hs Hp Hf Hold HN HP HF.
  apply (kconv_step G); auto.
  - simpl. eapply rclosed_mono_app; eauto.
  - intros [h0|q|k] r Hc Hin; simpl in *.
    + destruct Hc as (H' & Hn & Hcl). rewrite Hn in Hin.
      destruct (nth_error_app_new _ _ _ _ _ Hn) as [E|[_ Hi]].
      * destruct (Hold _ _ E) as (H & HnG & [->|Hd]).
        -- left. split; [eauto|]. rewrite HnG. exact Hin.
        -- unfold hrefs in Hin. rewrite Hd in Hin. inversion Hin.
      * rewrite (HN _ Hi) in Hcl. discriminate.
    + destruct Hc as (Q' & HQ & Ha). rewrite HQ in Hin. rewrite Hp in HQ.
      destruct (nth_error_app_new _ _ _ _ _ HQ) as [E|[_ Hi]].
      * left. split; [eauto|]. rewrite E. exact Hin.
      * exfalso. apply (HP _ Hi). exact Ha.
    + destruct Hc as (F' & HF' & Hd). rewrite HF' in Hin. rewrite Hf in HF'.
      destruct (nth_error_app_new _ _ _ _ _ HF') as [E|[_ Hi]].
      * left. split; [eauto|]. rewrite E. exact Hin.
      * exfalso. apply (HF _ Hi). exact Hd.
Qed.

Lemma new_parent_not_all_closed : forall t n, 2 <= n -> ~ all_closed (new_parent t n).
Proof. intros t n Hn Ha. unfold all_closed in Ha. simpl in Ha. rewrite repeat_length in Ha. lia. Qed.

Lemma root_P_store_rel_back : forall G st1 fw hs q r,
  store_rel (st_store G) st1 ->
  root_closed (mkState st1 fw hs) (RtP q) -> In r (root_refs (mkState st1 fw hs) (RtP q)) ->
  root_closed G (RtP q) /\ In r (root_refs G (RtP q)).
Proof.
  intros G st1 fw hs q r SR (Q' & HQ' & Ha) Hin. simpl in *. rewrite HQ' in Hin.
  destruct (Forall2_nth_r _ _ _ _ _ _ (proj2 SR) HQ') as (Q & HQ & R). split.
  - exists Q. split; auto. apply (all_closed_prel _ _ R). exact Ha.
  - rewrite HQ. destruct R as (E & _). rewrite <- E. exact Hin.
Qed.

Lemma do_op_kconv : forall fuel G o b G',
  do_op fuel G o = (b, G') -> Inv G -> op_legal G o -> op_closes_ok fuel G o -> kconv G -> kconv G'.
Proof.
  intros fuel G o b G' H (HS & HW & Hp & HK & HL) Hpre Hcok HC.
  destruct o as [cap | xs | h n | hs | h f | sid x | sid | h ch | h | k ch]; simpl in H.
  - inversion H; subst; clear H.
    apply (kconv_constructor_gen G _ _ (st_handles G) _ [] [] [new_stream cap true] HC).
    + reflexivity.
    + simpl. rewrite app_nil_r. reflexivity.
    + rewrite app_nil_r. reflexivity.
    + apply identity_nth'.
    + intros N [<-|[]]. reflexivity.
    + intros P [].
    + intros F [].
  - inversion H; subst; clear H.
    apply (kconv_constructor_gen G _ _ (st_handles G) _ [] [] [] HC).
    + rewrite app_nil_r. reflexivity.
    + rewrite app_nil_r. reflexivity.
    + rewrite app_nil_r. reflexivity.
    + apply identity_nth'.
    + intros N [<-|[]]. reflexivity.
    + intros P [].
    + intros F [].
  - destruct (live_rd G h) as [t|] eqn:El; [|inversion H; subst; auto].
    destruct (Nat.ltb n 2) eqn:En; [inversion H; subst; auto|]. apply Nat.ltb_ge in En.
    assert (Hpar : forall t0,
      kconv (mkState (add_parent (st_store G) (new_parent t0 n)) (st_fwds G)
             (st_handles (consume G h) ++
              map (fun i => mkH (RChild (List.length (parents (st_store G))) i) true false [] false) (seq 0 n)))).
    { intros t0. apply (kconv_constructor_gen G _ _ (st_handles (consume G h)) _ [new_parent t0 n] [] [] HC).
      + simpl. rewrite app_nil_r. reflexivity.
      + reflexivity.
      + rewrite app_nil_r. reflexivity.
      + apply consume_nth'.
      + intros N HN. apply in_map_iff in HN. destruct HN as (i0 & <- & _). reflexivity.
      + intros P [<-|[]]. apply new_parent_not_all_closed. exact En.
      + intros F []. }
    destruct t as [d rest | s0 | sts ch | f src cin cout | p i]; inversion H; subst; clear H;
      rewrite ?consume_store, ?consume_fwds; try apply Hpar.
    apply (kconv_constructor_gen G _ _ (st_handles (consume G h)) _ [] [] [] HC).
    + rewrite app_nil_r. reflexivity.
    + rewrite app_nil_r. reflexivity.
    + rewrite app_nil_r. reflexivity.
    + apply consume_nth'.
    + intros N HN. apply repeat_spec in HN. subst N. reflexivity.
    + intros P [].
    + intros F [].
  - destruct hs as [|h0 [|h1 hs']]; [inversion H; subst; auto| |].
    { destruct (live_rd G h0); inversion H; subst; auto. }
    destruct (nodupb (h0 :: h1 :: hs')) eqn:End; cbn [negb] in H; [|inversion H; subst; auto].
    destruct (live_rds G (h0 :: h1 :: hs')) as [ts|] eqn:El; [|inversion H; subst; auto].
    rewrite consume_all_store, consume_all_fwds in H.
    destruct (merge_collect _ _ ts [] []) as [[[st1 fw1] ss] arr] eqn:Em.
    destruct (merge_collect_spec _ _ _ _ _ _ _ _ _ Em) as (P1 & k0 & S1 & D1 & Pm).
    destruct (merge_collect_fine _ _ _ _ _ _ _ _ _ Em) as ((nf & Efw & Hnf) & Hss).
    assert (Hgen : forall st2 ns2 rdnew,
       streams st2 = streams (st_store G) ++ repeat (new_stream 5 false) k0 ++ ns2 ->
       parents st2 = parents st1 ->
       kconv (mkState st2 fw1 (st_handles (consume_all G (h0 :: h1 :: hs')) ++ [mkH rdnew true false [] false]))).
    { intros st2 ns2 rdnew Hs2 Hp2.
      apply (kconv_constructor_gen G st2 fw1 _ _ [] nf (repeat (new_stream 5 false) k0 ++ ns2) HC).
      + exact Hs2.
      + rewrite app_nil_r. congruence.
      + exact Efw.
      + apply consume_all_nth'.
      + intros N [<-|[]]. reflexivity.
      + intros P [].
      + intros F HF. rewrite Forall_forall in Hnf. destruct (Hnf F HF) as (_ & B & _). rewrite B. discriminate. }
    destruct ss as [|s0 ss']; destruct arr as [|a0 arr']; inversion H; subst b G'; clear H.
    + apply (Hgen st1 []); auto. rewrite app_nil_r. exact S1.
    + apply (Hgen st1 []); auto. rewrite app_nil_r. exact S1.
    + apply (Hgen st1 []); auto. rewrite app_nil_r. exact S1.
    + apply (Hgen (add_stream st1 (array_stream (a0 :: arr'))) [array_stream (a0 :: arr')]); auto.
      simpl. rewrite S1. rewrite <- app_assoc. reflexivity.
  - destruct (live_rd G h) as [t|] eqn:El; [|inversion H; subst; auto].
    inversion H; subst; clear H. rewrite consume_store, consume_fwds.
    apply (kconv_constructor_gen G _ _ (st_handles (consume G h)) _ [] [] [] HC).
    + rewrite app_nil_r. reflexivity.
    + rewrite app_nil_r. reflexivity.
    + rewrite app_nil_r. reflexivity.
    + apply consume_nth'.
    + intros N [<-|[]]. reflexivity.
    + intros P [].
    + intros F [].
  - (* OSend *)
    destruct (nth_error (streams (st_store G)) sid) as [s|] eqn:Es; [|inversion H; subst; auto].
    destruct (negb (s_user s)); [inversion H; subst; auto|].
    destruct (stream_send s x) as [r s'] eqn:E. inversion H; subst; clear H.
    apply (kconv_step G); [exact HC| |].
    + intros r0. apply (rclosed_set_stream_same _ _ s); auto.
      unfold stream_send in E. destruct (Nat.ltb 0 (s_rclosed s)); [inversion E; subst; auto|].
      destruct (s_sclosed s); [inversion E; subst; auto|]. destruct (Nat.ltb _ _); inversion E; subst; auto.
    + intros [h0|q|k] r0 Hc Hin; left; auto.
  - (* OCloseSend *)
    destruct (nth_error (streams (st_store G)) sid) as [s|] eqn:Es; [|inversion H; subst; auto].
    destruct (negb (s_user s)); [inversion H; subst; auto|].
    destruct (stream_close_send s) as [r s'] eqn:E. inversion H; subst; clear H.
    apply (kconv_step G); [exact HC| |].
    + intros r0. apply (rclosed_set_stream_same _ _ s); auto.
      unfold stream_close_send in E. destruct (s_sclosed s); inversion E; subst; auto.
    + intros [h0|q|k] r0 Hc Hin; left; auto.
  - (* ORecv *)
    destruct (nth_error (st_handles G) h) as [Hh|] eqn:Eh; [|inversion H; subst; auto].
    destruct (h_live Hh) eqn:Elv; cbn [negb] in H; [|inversion H; subst; auto].
    destruct (recv fuel (st_store G) (h_rd Hh) ch) as [[[r st1] t1] ch1] eqn:Er.
    inversion H; subst; clear H. apply recv_Recv in Er. destruct (Recv_static _ _ _ _ _ Er) as [SR Ht].
    apply (kconv_step G); [exact HC| |].
    + intros r0. apply (rclosed_store_rel _ _ _ SR).
    + intros [h0|q|k] r0 Hc Hin.
      * left. simpl in *. destruct Hc as (H' & Hn & Hcl). rewrite Hn in Hin.
        destruct (nth_error_upd _ _ _ _ _ _ Hn) as [[<- ->]|[Hne Hn0]].
        -- simpl in Hcl. split; [eauto|]. rewrite Eh. unfold hrefs in *. simpl in Hin. rewrite Elv. rewrite <- Ht. exact Hin.
        -- split; [eauto|]. rewrite Hn0. exact Hin.
      * left. eapply root_P_store_rel_back; eauto.
      * left. auto.
  - (* OClose *)
    destruct (nth_error (st_handles G) h) as [Hh|] eqn:Eh; [|inversion H; subst; auto].
    destruct (h_live Hh) eqn:Elv; cbn [negb] in H; [|inversion H; subst; auto].
    simpl in Hcok. specialize (Hcok _ Eh Elv).
    destruct (close_rd fuel (st_store G) (h_rd Hh)) as [r st1] eqn:Er. simpl in Hcok. subst r.
    inversion H; subst; clear H. apply close_Close in Er. pose proof (Close_static _ _ _ _ Er) as SR.
    destruct (Close_all _ _ _ _ Er eq_refl Hp) as [A B].
    apply (kconv_step G); [exact HC| |].
    + intros r0. apply (rclosed_cstore_mono _ _ _ SR).
    + intros [h0|q|k] r0 Hc Hin; simpl in *.
      * destruct Hc as (H' & Hn & Hcl). rewrite Hn in Hin.
        destruct (nth_error_upd _ _ _ _ _ _ Hn) as [[<- ->]|[Hne Hn0]].
        -- right. apply A. unfold hrefs in Hin. simpl in Hin. exact Hin.
        -- left. split; [eauto|]. rewrite Hn0. exact Hin.
      * destruct Hc as (Q' & HQ' & Ha). rewrite HQ' in Hin.
        destruct (B _ _ HQ' Ha) as [(Q & HQ & HaQ)|Hr]; [|right; apply Hr; exact Hin].
        left. split; [eauto|]. rewrite HQ.
        destruct (Forall2_nth _ _ _ _ _ _ (proj2 SR) HQ) as (Q1 & HQ1 & (E1 & _)). rewrite HQ' in HQ1. inversion HQ1; subst Q1.
        rewrite <- E1. exact Hin.
      * left. auto.
  - (* OFwd *)
    destruct (nth_error (st_fwds G) k) as [F|] eqn:EF; [|inversion H; subst; auto].
    assert (Hkeep : forall st2 F', f_src F' = f_src F \/ refs (f_src F') = refs (f_src F) -> f_st F' <> FDone ->
               (forall r0, rclosed (st_store G) r0 -> rclosed st2 r0) ->
               (forall q r0, root_closed (mkState st2 (upd (st_fwds G) k F') (st_handles G)) (RtP q) ->
                  In r0 (root_refs (mkState st2 (upd (st_fwds G) k F') (st_handles G)) (RtP q)) ->
                  root_closed G (RtP q) /\ In r0 (root_refs G (RtP q))) ->
               kconv (mkState st2 (upd (st_fwds G) k F') (st_handles G))).
    { intros st2 F' Hsrc Hnd Hm Hpq. apply (kconv_step G); [exact HC| exact Hm |].
      intros [h0|q|k2] r0 Hc Hin.
      - left. auto.
      - left. eapply Hpq; eauto.
      - left. simpl in *. destruct Hc as (F2 & HF2 & Hd). rewrite HF2 in Hin.
        destruct (nth_error_upd _ _ _ _ _ _ HF2) as [[<- ->]|[Hne HF20]]; [contradiction|].
        split; [eauto|]. rewrite HF20. exact Hin. }
    destruct (f_st F) as [|x| |] eqn:Est.
    + destruct (recv fuel (st_store G) (f_src F) ch) as [[[r st1] src1] ch1] eqn:Er.
      apply recv_Recv in Er. destruct (Recv_static _ _ _ _ _ Er) as [SR Ht].
      assert (Hm1 : forall r0, rclosed (st_store G) r0 -> rclosed st1 r0) by (intros r0; apply (rclosed_store_rel _ _ _ SR)).
      assert (Hpq1 : forall F' q r0, root_closed (mkState st1 (upd (st_fwds G) k F') (st_handles G)) (RtP q) ->
                 In r0 (root_refs (mkState st1 (upd (st_fwds G) k F') (st_handles G)) (RtP q)) ->
                 root_closed G (RtP q) /\ In r0 (root_refs G (RtP q))) by (intros; eapply root_P_store_rel_back; eauto).
      destruct r; try (inversion H; subst; clear H; apply Hkeep; [right; exact Ht | simpl; discriminate | exact Hm1 | apply Hpq1]).
      destruct (nth_error (streams st1) (f_dst F)) as [d|] eqn:Ed; [|inversion H; subst; auto].
      destruct (stream_close_send d) as [r0 d'] eqn:Ec. inversion H; subst; clear H.
      apply Hkeep; [right; exact Ht | simpl; discriminate | | ].
      * intros r1 Hr1.
        assert (Erc : s_rclosed d' = s_rclosed d).
        { unfold stream_close_send in Ec. destruct (s_sclosed d); inversion Ec; subst; auto. }
        apply (proj2 (rclosed_set_stream_same st1 (f_dst F) d d' r1 Ed Erc)). apply Hm1. exact Hr1.
      * intros q r1 Hc Hin. eapply (Hpq1 F); eauto.
    + destruct (nth_error (streams (st_store G)) (f_dst F)) as [d|] eqn:Ed; [|inversion H; subst; auto].
      destruct (stream_send d x) as [r d'] eqn:Es.
      destruct r; try (inversion H; subst; auto; fail).
      * inversion H; subst; clear H. apply Hkeep; simpl; auto; try discriminate.
        intros r1. apply (rclosed_set_stream_same _ _ d); auto.
        unfold stream_send in Es. destruct (Nat.ltb 0 (s_rclosed d)); [inversion Es|].
        destruct (s_sclosed d); [inversion Es|]. destruct (Nat.ltb _ _); inversion Es; subst; auto.
      * destruct (stream_close_send d) as [r0 d''] eqn:Ec. inversion H; subst; clear H.
        apply Hkeep; simpl; auto; try discriminate.
        intros r1. apply (rclosed_set_stream_same _ _ d); auto.
        unfold stream_close_send in Ec. destruct (s_sclosed d); inversion Ec; subst; auto.
    + simpl in Hcok. specialize (Hcok _ EF Est).
      destruct (close_rd fuel (st_store G) (f_src F)) as [r st1] eqn:Er. simpl in Hcok. subst r.
      inversion H; subst; clear H. apply close_Close in Er. pose proof (Close_static _ _ _ _ Er) as SR.
      destruct (Close_all _ _ _ _ Er eq_refl Hp) as [A B].
      apply (kconv_step G); [exact HC| |].
      * intros r0. apply (rclosed_cstore_mono _ _ _ SR).
      * intros [h0|q|k2] r0 Hc Hin; simpl in *.
        -- left. auto.
        -- destruct Hc as (Q' & HQ' & Ha). rewrite HQ' in Hin.
           destruct (B _ _ HQ' Ha) as [(Q & HQ & HaQ)|Hr]; [|right; apply Hr; exact Hin].
           left. split; [eauto|]. rewrite HQ.
           destruct (Forall2_nth _ _ _ _ _ _ (proj2 SR) HQ) as (Q1 & HQ1 & (E1 & _)). rewrite HQ' in HQ1. inversion HQ1; subst Q1.
           rewrite <- E1. exact Hin.
        -- destruct Hc as (F2 & HF2 & Hd). rewrite HF2 in Hin.
           destruct (nth_error_upd _ _ _ _ _ _ HF2) as [[<- ->]|[Hne HF20]].
           ++ right. apply A. exact Hin.
           ++ left. split; [eauto|]. rewrite HF20. exact Hin.
    + inversion H; subst; auto.
Qed.

(* ------------------------------------------------------------------ everything derived is closed => the stream is closed *)

(* [AllClosed G r]: the reader that owns reference r has been closed: by the user (a live
   handle), because it is the source of a copy parent all of whose children are (recursively)
   closed, or because it belongs to a forwarder goroutine that has finished *)
Inductive AllClosed (G : state) : ref -> Prop :=
| AC_h : forall h H r, nth_error (st_handles G) h = Some H -> h_live H = true -> h_closed H = true ->
    In r (refs (h_rd H)) -> AllClosed G r
| AC_p : forall q Q r, nth_error (parents (st_store G)) q = Some Q -> In r (refs (p_src Q)) ->
    (forall j, j < List.length (p_cur Q) -> AllClosed G (RC q j)) -> AllClosed G r
| AC_f : forall k F r, nth_error (st_fwds G) k = Some F -> f_st F = FDone ->
    In r (refs (f_src F)) -> AllClosed G r.

Lemma count_none_full : forall l, (forall j, j < List.length l -> nth_error l j = Some None) -> count_none l = List.length l.
Proof.
  induction l as [|a l IH]; intros H; simpl; auto.
  pose proof (H 0 ltac:(simpl; lia)) as H0. simpl in H0. inversion H0; subst. f_equal. apply IH.
  intros j Hj. apply (H (S j)). simpl. lia.
Qed.

Lemma AllClosed_rclosed : forall G, kconv G -> pcnt (st_store G) ->
  forall r, AllClosed G r -> rclosed (st_store G) r.
Proof.
  intros G HC Hp r H. induction H as [h H r Hn Hlv Hcl Hin | q Q r HQ Hin Hall IH | k F r HF Hd Hin].
  - apply (HC (RtH h) r).
    + simpl. eauto.
    + simpl. rewrite Hn. unfold hrefs. rewrite Hlv. exact Hin.
  - apply (HC (RtP q) r).
    + simpl. exists Q. split; auto. unfold all_closed. rewrite (Hp _ _ HQ). apply count_none_full.
      intros j Hj. destruct (IH j Hj) as (Q0 & HQ0 & Hc). rewrite HQ in HQ0. inversion HQ0; subst Q0. exact Hc.
    + simpl. rewrite HQ. exact Hin.
  - apply (HC (RtF k) r).
    + simpl. eauto.
    + simpl. rewrite HF. exact Hin.
Qed.

(* ------------------------------------------------------------------ runs *)

Definition op_legal2 (fuel : nat) (G : state) (o : op) : Prop :=
  op_legal G o /\ op_close_once G o /\ op_closes_ok fuel G o.

Lemma init_kconv : kconv init_state.
Proof. intros [h|q|k] r Hc; simpl in Hc; destruct Hc as (x & Hx & _); [destruct h | destruct q | destruct k]; discriminate. Qed.

Lemma run_close : forall fuel ops G bs G',
  run fuel G ops = (bs, G') -> run_pre (op_legal2 fuel) fuel G ops ->
  Inv G -> rcl1 (st_store G) -> psc (st_store G) -> kconv G ->
  Inv G' /\ rcl1 (st_store G') /\ psc (st_store G') /\ kconv G' /\ no_close_panic bs.
Proof.
  intros fuel. induction ops as [|o r IH]; intros G bs G' H Hpre HI Hr Hs HC; simpl in H.
  - inversion H; subst. simpl. auto.
  - destruct (do_op fuel G o) as [b G1] eqn:E1. destruct (run fuel G1 r) as [bs2 G2] eqn:E2.
    inversion H; subst. simpl in Hpre. destruct Hpre as [(Hpo & Hpc & Hpk) Hpr]. rewrite E1 in Hpr. simpl in Hpr.
    destruct (do_op_once _ _ _ _ _ E1 HI Hpc) as [O1 O2].
    destruct (IH _ _ _ E2 Hpr) as (A & B & C & D & E).
    + eapply do_op_Inv; eauto.
    + eapply rcl1_onceN; eauto.
    + eapply do_op_psc; eauto. apply HI.
    + eapply do_op_kconv; eauto.
    + split; [exact A|]. split; [exact B|]. split; [exact C|]. split; [exact D|].
      destruct b as [hs0|r0|r0|c0| |]; simpl; auto.
Qed.

Definition legal_run2 (fuel : nat) (ops : list op) : Prop := run_pre (op_legal2 fuel) fuel init_state ops.

Lemma init_rcl1 : rcl1 (st_store init_state).
Proof. intros sid s H. destruct sid; discriminate. Qed.
Lemma init_psc : psc (st_store init_state).
Proof. intros q Q H. destruct q; discriminate. Qed.

(* close_propagates_once *)
Lemma run_close_propagates : forall fuel ops bs G,
  run fuel init_state ops = (bs, G) -> legal_run2 fuel ops ->
  (* closeRecv at most once per stream, no Close hit a closed channel *)
  (forall sid s, nth_error (streams (st_store G)) sid = Some s -> s_rclosed s <= 1)
  /\ no_close_panic bs
  (* a copy parent closes its source exactly when its last child is closed, once *)
  /\ (forall q Q, nth_error (parents (st_store G)) q = Some Q ->
        p_closed Q = count_none (p_cur Q)
        /\ p_srcclosed Q = if Nat.eqb (p_closed Q) (List.length (p_cur Q)) then 1 else 0)
  (* nothing is closed unless its owner is closed (the writer is not told early) *)
  /\ (forall ro r, In r (root_refs G ro) -> rclosed (st_store G) r -> root_closed G ro)
  (* a closed owner has closed all it owns; when every derived reader is closed so is the stream *)
  /\ (forall ro r, root_closed G ro -> In r (root_refs G ro) -> rclosed (st_store G) r)
  /\ (forall r, AllClosed G r -> rclosed (st_store G) r)
  (* ... and then the writer's next send is refused *)
  /\ (forall sid s x, nth_error (streams (st_store G)) sid = Some s -> AllClosed G (RS sid) ->
        stream_send s x = (SClosed, s)).
Proof.
  intros fuel ops bs G Hrun Hleg.
  destruct (run_close _ _ _ _ _ Hrun Hleg init_Inv init_rcl1 init_psc init_kconv) as (HI & Hr & Hs & HC & Hn).
  pose proof HI as (_ & _ & Hp & HK & _).
  split; [exact Hr|]. split; [exact Hn|]. split.
  { intros q Q HQ. split; [apply (Hp _ _ HQ) | apply (Hs _ _ HQ)]. }
  split; [exact HK|]. split; [exact HC|]. split; [apply AllClosed_rclosed; auto|].
  intros sid s x Hsn Ha. apply stream_send_closed.
  destruct (AllClosed_rclosed G HC Hp _ Ha) as (s0 & Hs0 & Hc). congruence.
Qed.

(* a forwarder that holds an item and whose destination has been closed stops: its next step
   closes the destination's send side, the one after closes its source *)
Lemma forwarder_stops_when_told : forall fuel G k F d x ch,
  nth_error (st_fwds G) k = Some F -> f_st F = FSend x ->
  nth_error (streams (st_store G)) (f_dst F) = Some d -> 0 < s_rclosed d ->
  exists G1, do_op fuel G (OFwd k ch) = (BStep, G1)
    /\ exists F1, nth_error (st_fwds G1) k = Some F1 /\ f_st F1 = FClosing /\ f_src F1 = f_src F
    /\ forall ch2, exists G2 F2, do_op fuel G1 (OFwd k ch2) = (BStep, G2)
         /\ nth_error (st_fwds G2) k = Some F2 /\ f_st F2 = FDone.
Proof.
  intros fuel G k F d x ch HF Hst Hd Hc. unfold do_op. rewrite HF, Hst, Hd.
  rewrite (stream_send_closed d x Hc).
  destruct (stream_close_send d) as [r0 d'] eqn:Ec. eexists. split; [reflexivity|].
  assert (Hk : k < List.length (st_fwds G)) by (apply nth_error_Some; congruence).
  eexists. split; [simpl; apply nth_error_upd_eq; exact Hk|]. split; [reflexivity|]. split; [reflexivity|].
  intros ch2. simpl. rewrite nth_error_upd_eq by exact Hk. simpl.
  destruct (close_rd fuel (set_stream (st_store G) (f_dst F) d') (f_src F)) as [c st1].
  eexists. eexists. split; [reflexivity|]. simpl. split; [apply nth_error_upd_eq; rewrite upd_length; exact Hk | reflexivity].
Qed.

(* ------------------------------------------------------------------ deciding legality (for examples) *)

Definition clres_is_ok (c : clres) : bool := match c with ClOk => true | _ => false end.

Definition op_legal2b (fuel : nat) (G : state) (o : op) : bool :=
  op_legalb G o
  && match o with
     | OClose h =>
         match nth_error (st_handles G) h with
         | Some H => negb (h_closed H) && clres_is_ok (fst (close_rd fuel (st_store G) (h_rd H)))
         | None => true
         end
     | OFwd k _ =>
         match nth_error (st_fwds G) k with
         | Some F => match f_st F with
                     | FClosing => clres_is_ok (fst (close_rd fuel (st_store G) (f_src F)))
                     | _ => true
                     end
         | None => true
         end
     | _ => true
     end.

Fixpoint run_legal2b (fuel : nat) (G : state) (ops : list op) : bool :=
  match ops with
  | [] => true
  | o :: r => op_legal2b fuel G o && run_legal2b fuel (snd (do_op fuel G o)) r
  end.

Lemma op_legal2b_sound : forall fuel G o, op_legal2b fuel G o = true -> op_legal2 fuel G o.
Proof.
  intros fuel G o H. unfold op_legal2b in H. apply andb_prop in H. destruct H as [A B].
  split; [apply op_legalb_sound; exact A|].
  destruct o as [cap | xs | h n | hs | h f | sid x | sid | h ch | h | k ch]; simpl; auto.
  - destruct (nth_error (st_handles G) h) as [H|] eqn:E.
    + apply andb_prop in B. destruct B as [B1 B2]. split.
      * intros H0 E0. rewrite E in E0. inversion E0; subst. destruct (h_closed H0); auto; discriminate.
      * intros H0 E0 _. inversion E0; subst. destruct (fst (close_rd fuel (st_store G) (h_rd H0))); auto; simpl in B2; discriminate.
    + split; intros H0 E0; [rewrite E in E0|]; discriminate.
  - split; auto. intros F HF Hst. rewrite HF, Hst in B.
    destruct (fst (close_rd fuel (st_store G) (f_src F))); auto; simpl in B; discriminate.
Qed.

Lemma run_legal2b_sound : forall fuel ops G, run_legal2b fuel G ops = true -> run_pre (op_legal2 fuel) fuel G ops.
Proof.
  intros fuel. induction ops as [|o r IH]; intros G H; simpl in *; auto.
  apply andb_prop in H. destruct H as [A B]. split; [apply op_legal2b_sound; exact A | apply IH; exact B].
Qed.

(* ------------------------------------------------------------------ deciding AllClosed (for examples) *)

Definition ref_eqb (a b : ref) : bool :=
  match a, b with
  | RS x, RS y => Nat.eqb x y
  | RC p i, RC q j => Nat.eqb p q && Nat.eqb i j
  | _, _ => false
  end.

Lemma ref_eqb_eq : forall a b, ref_eqb a b = true -> a = b.
Proof.
  intros [x|p i] [y|q j] H; simpl in H; try discriminate.
  - apply Nat.eqb_eq in H. congruence.
  - apply andb_prop in H. destruct H as [A B]. apply Nat.eqb_eq in A. apply Nat.eqb_eq in B. congruence.
Qed.

Definition memref (r : ref) (l : list ref) : bool := existsb (ref_eqb r) l.

Lemma memref_In : forall r l, memref r l = true -> In r l.
Proof.
  intros r l H. apply existsb_exists in H. destruct H as (x & Hin & He). apply ref_eqb_eq in He. subst. exact Hin.
Qed.

Definition is_done (s : fstate) : bool := match s with FDone => true | _ => false end.

Fixpoint all_closedb (n : nat) (G : state) (r : ref) {struct n} : bool :=
  match n with
  | O => false
  | S n' =>
    existsb (fun H => h_live H && h_closed H && memref r (refs (h_rd H))) (st_handles G)
    || existsb (fun F => is_done (f_st F) && memref r (refs (f_src F))) (st_fwds G)
    || existsb (fun qQ => memref r (refs (p_src (snd qQ)))
                          && forallb (fun j => all_closedb n' G (RC (fst qQ) j)) (seq 0 (List.length (p_cur (snd qQ)))))
               (combine (seq 0 (List.length (parents (st_store G)))) (parents (st_store G)))
  end.

Lemma in_combine_seq_nth : forall A (l : list A) a q x, In (q, x) (combine (seq a (List.length l)) l) ->
  a <= q /\ nth_error l (q - a) = Some x.
Proof.
  induction l as [|y l IH]; intros a q x H; simpl in H; [contradiction|].
  destruct H as [H|H].
  - inversion H; subst. rewrite Nat.sub_diag. auto.
  - apply IH in H. destruct H as [L E]. split; [lia|].
    replace (q - a) with (S (q - S a)) by lia. exact E.
Qed.

Lemma all_closedb_sound : forall n G r, all_closedb n G r = true -> AllClosed G r.
Proof.
  induction n as [|n IH]; intros G r H; [discriminate|].
  cbn [all_closedb] in H. apply orb_prop in H. destruct H as [H|H]; [apply orb_prop in H; destruct H as [H|H]|].
  - apply existsb_exists in H. destruct H as (Hd & Hin & Hb).
    apply andb_prop in Hb. destruct Hb as [Hb Hm]. apply andb_prop in Hb. destruct Hb as [Hl Hc].
    apply In_nth_error in Hin. destruct Hin as [h Hh].
    eapply AC_h; eauto. apply memref_In; exact Hm.
  - apply existsb_exists in H. destruct H as (F & Hin & Hb).
    apply andb_prop in Hb. destruct Hb as [Hd Hm].
    apply In_nth_error in Hin. destruct Hin as [k Hk].
    eapply AC_f; eauto; [destruct (f_st F); simpl in Hd; auto; discriminate | apply memref_In; exact Hm].
  - apply existsb_exists in H. destruct H as ([q Q] & Hin & Hb). simpl in Hb.
    apply andb_prop in Hb. destruct Hb as [Hm Hall].
    apply in_combine_seq_nth in Hin. destruct Hin as [_ HQ]. rewrite Nat.sub_0_r in HQ.
    eapply AC_p; eauto; [apply memref_In; exact Hm|].
    intros j Hj. apply IH. rewrite forallb_forall in Hall. apply Hall. apply in_seq. lia.
Qed.
