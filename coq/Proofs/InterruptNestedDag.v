(* Proofs/InterruptNestedDag.v — resume_equiv_nested for forests that mix Graphs in any-predecessor mode with
   Graphs in all-predecessor mode (owner: C05): the channel layer of the latter is
   Proofs/InterruptChanDag.v + Proofs/InterruptChanDagSkip.v (joint invariant of C02's Proofs/DagInv.v; the
   skip propagation computes a least fixpoint that does not depend on the order of the completed tasks). *)
From Eino Require Import Base.Util Model.Graph Model.RunLoop Model.Interrupt
     Proofs.RunLoop Proofs.RunLoopSusp Proofs.InterruptChan Proofs.InterruptChanPregel Proofs.Interrupt
     Proofs.InterruptRerun Proofs.InterruptNested Proofs.DagInv Proofs.InterruptChanDag Proofs.InterruptChanDagSkip.
From Coq Require Import Permutation.
Open Scope N_scope.

(* what the Graph API builds: every edge carries data and control, every branch carries data *)
Definition graph_built (gr : graph) : Prop :=
  forall n, In n (g_nodes gr) -> n_dsucc n = n_csucc n /\ forall b, In b (n_branches n) -> b_nodata b = false.

(* a Graph (batch mode): any-predecessor mode, or all-predecessor mode (END has a predecessor: Compile
   guarantees it) *)
Definition batch_graph (g : gspec) : Prop :=
  g_eager (gs_graph g) = false /\ rerun_ok' g /\
  (g_mode (gs_graph g) = Pregel \/
   (g_mode (gs_graph g) = Dag /\ graph_built (gs_graph g) /\ exists q, gpred (gs_graph g) kEND q)).

Definition batchJ (g : gspec) (cs : chans value) (P : list N) : Prop :=
  match g_mode (gs_graph g) with
  | Pregel => pinv cs
  | Dag => dagJ2 (gs_graph g) cs P
  end.

Lemma batch_good : forall g, batch_graph g -> good_graph batchJ g.
Proof.
  intros g (He & Hr & Hm). split; [exact He|]. split; [exact Hr|].
  destruct Hm as [Hm|(Hm & Hnb & Hend)].
  - split.
    + assert (E : batchJ g = (fun cs _ => pinv cs)) by (unfold batchJ; rewrite Hm; reflexivity).
      rewrite E. apply chan_layer_pregel. exact Hm.
    + intros cs0 Hi. unfold batchJ. rewrite Hm. eapply init_chans_pinv; eauto.
  - split.
    + assert (E : batchJ g = dagJ2 (gs_graph g)) by (unfold batchJ; rewrite Hm; reflexivity).
      rewrite E. apply chan_layer_dag; auto.
    + intros cs0 Hi. unfold batchJ. rewrite Hm. apply dagJ2_init; auto.
Qed.

Lemma pregel_batch : forall g, pregel_graph g -> batch_graph g.
Proof. intros g (He & Hm & Hr). split; [exact He|]. split; [exact Hr|]. left. exact Hm. Qed.

Lemma nested_equiv_batch_l : forall F, Forall batch_graph F ->
  forall mods x eU0 coU eU' vU e cos e' cos' co,
    run_drive (map strip F) false [] x eU0 = ([coU], eU') -> co_out coU = ODone vU ->
    run_drive F true mods x e = (cos, e') -> cos = cos' ++ [co] ->
    is_interrupt (co_out co) \/
    (co_out co = ODone vU /\
     Permutation (good (all_logs cos)) (co_log coU) /\
     exists LU LI, trE eU' = trE eU0 ++ LU /\ trE e' = trE e ++ LI /\ Permutation LI LU).
Proof.
  intros F HF mods x eU0 coU eU' vU e cos e' cos' co Href HvU Hd Hcos.
  destruct F as [|g0 rest].
  { simpl in Href. inversion Href. }
  assert (HF' : Forall (good_graph batchJ) (g0 :: rest)).
  { eapply Forall_impl; [|exact HF]. intros g Hg. apply batch_good. exact Hg. }
  unfold run_drive in Hd.
  exact (nested_equiv_l (g0 :: rest) batchJ HF' g0 rest eq_refl mods x eU0 coU eU' vU max_resumes e cos e' cos' co
           Href HvU Hd Hcos).
Qed.

(* ---------- non-vacuity for the all-predecessor branch: a diamond START -> {2, 3} -> 4 -> END in all-predecessor
   mode; node 2 aborts its first attempt, interrupt-before 4: node 3 completes in the first call while node 2
   aborts (mid-step checkpoint: 3's output folded into the channel of 4, 2 pending), the second call re-runs 2
   and stops before 4, the third completes. ---------- *)
Definition wd_g : gspec :=
  Build_gspec (Build_graph [Build_node 0 KLambda None [2; 3] [2; 3] [] [];
                            Build_node 2 KLambda None [4] [4] [] [];
                            Build_node 3 KLambda None [4] [4] [] [];
                            Build_node 4 KLambda None [1] [1] [] []] Dag false 0%nat)
              true [2] [(2, [1])] [4] [] [] [].
Definition wd_F := [wd_g].

Lemma wd_batch : Forall batch_graph wd_F.
Proof.
  constructor; [|constructor]. split; [reflexivity|]. split.
  - intros k l H. simpl in H. destruct (N.eqb k 2) eqn:E2; [apply N.eqb_eq in E2; subst; split; reflexivity|discriminate].
  - right. split; [reflexivity|]. split.
    + intros n Hn. simpl in Hn. repeat (destruct Hn as [<-|Hn]; [split; [reflexivity|intros b []]|]). destruct Hn.
    + exists 4. left. vm_compute. left. reflexivity.
Qed.

Lemma wd_reference : exists coU eU v,
  run_drive (map strip wd_F) false [] wn_x (env0 []) = ([coU], eU) /\ co_out coU = ODone v /\
  List.length (trE eU) = 3%nat.
Proof. do 3 eexists. split; [vm_compute; reflexivity|]. split; vm_compute; reflexivity. Qed.

Lemma wd_interrupted : exists co1 co2 co3 e v,
  run_drive wd_F true [] wn_x (env0 []) = ([co1; co2; co3], e) /\
  (exists i1 c1, co_out co1 = OInterrupted i1 c1 /\ ii_rerun i1 = [2]) /\
  (exists i2 c2, co_out co2 = OInterrupted i2 c2 /\ ii_before i2 = [4]) /\
  co_out co3 = ODone v /\ List.length (trE e) = 3%nat.
Proof.
  do 5 eexists. split; [vm_compute; reflexivity|]. split; [do 2 eexists; split; reflexivity|].
  split; [do 2 eexists; split; reflexivity|]. split; vm_compute; reflexivity.
Qed.

(* ---------- non-vacuity with a branch: START -> {2, 6}; 2 branches over {3, 4} and selects 3 (4 is skipped, the
   skip is propagated to the join 5); 3, 4, 6 -> 5 -> END; node 6 aborts its first attempt while 2 completes: the
   mid-step checkpoint holds the skip reports of 2; the second call re-runs 6 and completes. ---------- *)
Definition wb_g : gspec :=
  Build_gspec (Build_graph [Build_node 0 KLambda None [2; 6] [2; 6] [] [];
                            Build_node 2 KLambda None [] [] [] [Build_branch [3; 4] false [[3]]];
                            Build_node 3 KLambda None [5] [5] [] [];
                            Build_node 4 KLambda None [5] [5] [] [];
                            Build_node 5 KLambda None [1] [1] [] [];
                            Build_node 6 KLambda None [5] [5] [] []] Dag false 0%nat)
              true [6] [(6, [1])] [] [] [] [].
Definition wb_F := [wb_g].

Lemma wb_batch : Forall batch_graph wb_F.
Proof.
  constructor; [|constructor]. split; [reflexivity|]. split.
  - intros k l H. simpl in H. destruct (N.eqb k 6) eqn:E6; [apply N.eqb_eq in E6; subst; split; reflexivity|discriminate].
  - right. split; [reflexivity|]. split.
    + intros n Hn. simpl in Hn.
      destruct Hn as [<-|Hn]; [split; [reflexivity|intros b []]|].
      destruct Hn as [<-|Hn]; [split; [reflexivity|intros b [<-|[]]; reflexivity]|].
      repeat (destruct Hn as [<-|Hn]; [split; [reflexivity|intros b []]|]). destruct Hn.
    + exists 5. left. vm_compute. left. reflexivity.
Qed.

Lemma wb_reference : exists coU eU v,
  run_drive (map strip wb_F) false [] wn_x (env0 []) = ([coU], eU) /\ co_out coU = ODone v /\
  List.length (trE eU) = 4%nat.
Proof. do 3 eexists. split; [vm_compute; reflexivity|]. split; vm_compute; reflexivity. Qed.

Lemma wb_interrupted : exists co1 co2 e v,
  run_drive wb_F true [] wn_x (env0 []) = ([co1; co2], e) /\
  (exists i1 c1, co_out co1 = OInterrupted i1 c1 /\ ii_rerun i1 = [6]) /\
  co_out co2 = ODone v /\ List.length (trE e) = 4%nat.
Proof.
  do 4 eexists. split; [vm_compute; reflexivity|]. split; [do 2 eexists; split; reflexivity|].
  split; vm_compute; reflexivity.
Qed.
