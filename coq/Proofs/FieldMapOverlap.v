(* Proofs/FieldMapOverlap.v — the overlap check (trie insertion of checkAndAddMappedPath,
   as repaired by F-C15a) accepts a list of target paths iff no path equals or is a
   prefix of another one; hence acceptance does not depend on the declaration order.
   The pre-fix function is refuted by computation. *)
From Coq Require Import Permutation.
From Eino Require Import Base.Util Base.FMUniverse Model.FieldMap.

(* ------------------------------------------------------------ association lists *)

Lemma aget_ains_same : forall {A} k (a : A) l, aget k (ains k a l) = Some a.
Proof.
  intros A k a l. unfold aget, ains. induction l as [|[k0 a0] l IH]; simpl.
  - rewrite N.eqb_refl. reflexivity.
  - destruct (N.ltb k k0) eqn:Hlt; simpl.
    + rewrite N.eqb_refl. reflexivity.
    + destruct (N.eqb k k0) eqn:Heq; simpl.
      * rewrite N.eqb_refl. reflexivity.
      * rewrite Heq. exact IH.
Qed.

Lemma aget_ains_other : forall {A} k k' (a : A) l, k' <> k -> aget k' (ains k a l) = aget k' l.
Proof.
  intros A k k' a l Hne. unfold aget, ains. induction l as [|[k0 a0] l IH]; simpl.
  - destruct (N.eqb k' k) eqn:E; [apply N.eqb_eq in E; contradiction | reflexivity].
  - destruct (N.ltb k k0) eqn:Hlt; simpl.
    + destruct (N.eqb k' k) eqn:E; [apply N.eqb_eq in E; contradiction | reflexivity].
    + destruct (N.eqb k k0) eqn:Heq; simpl.
      * apply N.eqb_eq in Heq. subst k0.
        destruct (N.eqb k' k) eqn:E; [apply N.eqb_eq in E; contradiction | reflexivity].
      * destruct (N.eqb k' k0); [reflexivity | exact IH].
Qed.

(* ------------------------------------------------------------ paths *)

(* [prefix] and [conflict] (one path equals or is a prefix of the other) are defined in Model/FieldMap.v *)

Lemma conflict_sym : forall p q, conflict p q = conflict q p.
Proof. intros. unfold conflict. apply orb_comm. Qed.

Lemma conflict_cons_same : forall f p q, conflict (f :: p) (f :: q) = conflict p q.
Proof. intros. unfold conflict. simpl. rewrite N.eqb_refl. reflexivity. Qed.

Lemma conflict_cons_diff : forall f g p q, f <> g -> conflict (f :: p) (g :: q) = false.
Proof.
  intros f g p q H. unfold conflict. simpl.
  destruct (N.eqb f g) eqn:E; [apply N.eqb_eq in E; contradiction|].
  destruct (N.eqb g f) eqn:E'; [apply N.eqb_eq in E'; subst; contradiction|]. reflexivity.
Qed.

Lemma conflict_nil_l : forall q, conflict [] q = true.
Proof. reflexivity. Qed.

Lemma path_eqb_refl : forall p, path_eqb p p = true.
Proof. induction p; simpl; [reflexivity | rewrite N.eqb_refl; exact IHp]. Qed.

Lemma path_eqb_eq : forall p q, path_eqb p q = true <-> p = q.
Proof.
  induction p as [|x p IH]; destruct q as [|y q]; simpl; split; intro H; try reflexivity; try discriminate.
  - apply andb_true_iff in H. destruct H as [H1 H2]. apply N.eqb_eq in H1. apply IH in H2. subst. reflexivity.
  - inversion H; subst. rewrite N.eqb_refl. apply IH. reflexivity.
Qed.

Lemma conflict_refl : forall p, conflict p p = true.
Proof. intro p. unfold conflict. replace (prefix p p) with true; [reflexivity|]. induction p; simpl; [reflexivity | rewrite N.eqb_refl; exact IHp]. Qed.

(* no two (distinct positions of the) list overlap *)
Fixpoint no_conflict (ps : list path) : Prop :=
  match ps with
  | [] => True
  | p :: ps' => Forall (fun q => conflict p q = false) ps' /\ no_conflict ps'
  end.

Lemma no_conflict_perm : forall ps qs, Permutation ps qs -> no_conflict ps -> no_conflict qs.
Proof.
  intros ps qs HP. induction HP; simpl; intros H.
  - exact I.
  - destruct H as [H1 H2]. split; [| auto]. eapply Permutation_Forall; eauto.
  - destruct H as [H1 [H2 H3]]. inversion H1; subst. split; [| split; auto].
    constructor; [rewrite conflict_sym; assumption | assumption].
  - auto.
Qed.

(* ------------------------------------------------------------ the trie's path set *)

(* q is one of the mapped (terminal) paths recorded in t *)
Fixpoint tmem (q : path) (t : trie) : bool :=
  match t, q with
  | Term, [] => true
  | Term, _ :: _ => false
  | Node _, [] => false
  | Node cs, f :: rest => match aget f cs with Some s => tmem rest s | None => false end
  end.

(* below the root every recorded node leads to a mapped path (nodes are only created on
   the way to one) *)
Inductive wf_sub : trie -> Prop :=
| wf_term : wf_sub Term
| wf_node : forall cs,
    (exists f s, aget f cs = Some s) ->
    (forall f s, aget f cs = Some s -> wf_sub s) ->
    wf_sub (Node cs).

Definition children_wf (cs : list (N * trie)) : Prop := forall f s, aget f cs = Some s -> wf_sub s.

Lemma wf_sub_nonempty : forall t, wf_sub t -> exists q, tmem q t = true.
Proof.
  intros t H. induction H as [| cs [f [s Hfs]] Hall IH].
  - exists []. reflexivity.
  - destruct (IH f s Hfs) as [q Hq]. exists (f :: q). simpl. rewrite Hfs. exact Hq.
Qed.

Lemma tmem_node_nil : forall q, tmem q (Node []) = false.
Proof. destruct q; reflexivity. Qed.

Lemma sub_spec : forall p cs,
  p <> [] -> children_wf cs ->
  match tinsert_sub p cs with
  | Some cs' =>
      children_wf cs' /\
      (forall q, tmem q (Node cs') = path_eqb q p || tmem q (Node cs)) /\
      (forall q, tmem q (Node cs) = true -> conflict p q = false)
  | None => exists q, tmem q (Node cs) = true /\ conflict p q = true
  end.
Proof.
  induction p as [|f rest IH]; intros cs Hne Hwf; [contradiction|].
  simpl. destruct (aget f cs) as [[|cs']|] eqn:Hf.
  - (* an existing terminal *)
    assert (W : exists q, tmem q (Node cs) = true /\ conflict (f :: rest) q = true).
    { exists [f]. split; [simpl; rewrite Hf; reflexivity|].
      unfold conflict. simpl. rewrite N.eqb_refl. simpl. apply orb_true_r. }
    destruct rest; exact W.
  - destruct rest as [|g rest'].
    + (* new path is a prefix of an existing one *)
      destruct (wf_sub_nonempty _ (Hwf _ _ Hf)) as [q Hq].
      exists (f :: q). split; [simpl; rewrite Hf; exact Hq|].
      unfold conflict. simpl. rewrite N.eqb_refl. reflexivity.
    + assert (Hwf' : children_wf cs').
      { pose proof (Hwf _ _ Hf) as W. inversion W; subst. assumption. }
      specialize (IH cs' ltac:(discriminate) Hwf').
      destruct (tinsert_sub (g :: rest') cs') as [cs''|].
      * destruct IH as [Hw [Hm Hc]]. split; [|split].
        -- intros k s Hk. destruct (N.eq_dec k f) as [->|Hkf].
           ++ rewrite aget_ains_same in Hk. inversion Hk; subst.
              constructor; [| exact Hw].
              pose proof (Hm (g :: rest')) as E. rewrite path_eqb_refl in E. simpl in E.
              destruct (aget g cs'') as [s'|] eqn:Hg; [exists g, s'; exact Hg | discriminate].
           ++ rewrite aget_ains_other in Hk by assumption. eapply Hwf; eauto.
        -- intros [|k q']; [reflexivity|]. simpl tmem at 1.
           destruct (N.eq_dec k f) as [->|Hkf].
           ++ rewrite aget_ains_same. simpl path_eqb. rewrite N.eqb_refl. simpl.
              rewrite Hf. apply Hm.
           ++ rewrite aget_ains_other by assumption. simpl.
              destruct (N.eqb k f) eqn:E; [apply N.eqb_eq in E; contradiction|]. reflexivity.
        -- intros [|k q'] Hq; [discriminate|]. simpl in Hq.
           destruct (N.eq_dec k f) as [->|Hkf].
           ++ rewrite Hf in Hq. rewrite conflict_cons_same. apply Hc. exact Hq.
           ++ apply conflict_cons_diff. congruence.
      * destruct IH as [q [Hq Hc]]. exists (f :: q). split.
        -- simpl. rewrite Hf. exact Hq.
        -- rewrite conflict_cons_same. exact Hc.
  - destruct rest as [|g rest'].
    + split; [|split].
      * intros k s Hk. destruct (N.eq_dec k f) as [->|Hkf].
        -- rewrite aget_ains_same in Hk. inversion Hk. constructor.
        -- rewrite aget_ains_other in Hk by assumption. eapply Hwf; eauto.
      * intros [|k q']; [reflexivity|]. simpl tmem at 1.
        destruct (N.eq_dec k f) as [->|Hkf].
        -- rewrite aget_ains_same. simpl. rewrite N.eqb_refl, Hf. simpl.
           destruct q'; simpl; [reflexivity | reflexivity].
        -- rewrite aget_ains_other by assumption. simpl.
           destruct (N.eqb k f) eqn:E; [apply N.eqb_eq in E; contradiction|]. reflexivity.
      * intros [|k q'] Hq; [discriminate|]. simpl in Hq.
        destruct (N.eq_dec k f) as [->|Hkf]; [rewrite Hf in Hq; discriminate|].
        apply conflict_cons_diff. congruence.
    + assert (Hwf0 : children_wf []) by (intros k s Hk; discriminate).
      specialize (IH [] ltac:(discriminate) Hwf0).
      destruct (tinsert_sub (g :: rest') []) as [cs''|].
      * destruct IH as [Hw [Hm _]]. split; [|split].
        -- intros k s Hk. destruct (N.eq_dec k f) as [->|Hkf].
           ++ rewrite aget_ains_same in Hk. inversion Hk; subst.
              constructor; [| exact Hw].
              pose proof (Hm (g :: rest')) as E. rewrite path_eqb_refl in E. simpl in E.
              destruct (aget g cs'') as [s'|] eqn:Hg; [exists g, s'; exact Hg | discriminate].
           ++ rewrite aget_ains_other in Hk by assumption. eapply Hwf; eauto.
        -- intros [|k q']; [reflexivity|]. simpl tmem at 1.
           destruct (N.eq_dec k f) as [->|Hkf].
           ++ rewrite aget_ains_same. simpl path_eqb. rewrite N.eqb_refl. simpl.
              rewrite Hf. rewrite Hm. rewrite tmem_node_nil. rewrite orb_false_r. reflexivity.
           ++ rewrite aget_ains_other by assumption. simpl.
              destruct (N.eqb k f) eqn:E; [apply N.eqb_eq in E; contradiction|]. reflexivity.
        -- intros [|k q'] Hq; [discriminate|]. simpl in Hq.
           destruct (N.eq_dec k f) as [->|Hkf]; [rewrite Hf in Hq; discriminate|].
           apply conflict_cons_diff. congruence.
      * destruct IH as [q [Hq _]]. rewrite tmem_node_nil in Hq. discriminate.
Qed.

(* ------------------------------------------------------------ the root *)

Definition wf_root (t : trie) : Prop :=
  match t with Term => True | Node cs => children_wf cs end.

Lemma tinsert_spec : forall p t,
  wf_root t ->
  match tinsert p t with
  | Some t' =>
      wf_root t' /\
      (forall q, tmem q t' = path_eqb q p || tmem q t) /\
      (forall q, tmem q t = true -> conflict p q = false)
  | None => exists q, tmem q t = true /\ conflict p q = true
  end.
Proof.
  intros p [|cs] Hwf; simpl.
  - exists []. split; [reflexivity|]. unfold conflict. simpl. apply orb_true_r.
  - destruct p as [|f rest].
    + destruct cs as [|[k s] cs'].
      * split; [exact I|]. split.
        -- intros [|x q]; reflexivity.
        -- intros q Hq. rewrite tmem_node_nil in Hq. discriminate.
      * (* the whole input after field mappings *)
        assert (Hk : aget k ((k, s) :: cs') = Some s) by (unfold aget; simpl; rewrite N.eqb_refl; reflexivity).
        destruct (wf_sub_nonempty _ (Hwf _ _ Hk)) as [q Hq].
        exists (k :: q). split; [|reflexivity].
        cbn [tmem]. rewrite Hk. exact Hq.
    + pose proof (sub_spec (f :: rest) cs ltac:(discriminate) Hwf) as S.
      destruct (tinsert_sub (f :: rest) cs) as [cs'|]; simpl; exact S.
Qed.

(* ------------------------------------------------------------ a whole list *)

Lemma tinsert_all_spec : forall ps t,
  wf_root t ->
  (exists t', tinsert_all ps t = Some t') <->
  (no_conflict ps /\ forall p, In p ps -> forall q, tmem q t = true -> conflict p q = false).
Proof.
  induction ps as [|p ps IH]; intros t Hwf; simpl.
  - split; [intros _; split; [exact I | intros ? []] | intros _; eexists; reflexivity].
  - pose proof (tinsert_spec p t Hwf) as S.
    destruct (tinsert p t) as [t'|].
    + destruct S as [Hwf' [Hm Hc]]. rewrite (IH t' Hwf'). split.
      * intros [Hnc Hall]. split; [split|].
        -- apply Forall_forall. intros q Hq.
           rewrite conflict_sym. apply (Hall q Hq p). rewrite Hm, path_eqb_refl. reflexivity.
        -- exact Hnc.
        -- intros p0 [<-|Hin] q Hq; [apply Hc; exact Hq|].
           apply (Hall p0 Hin q). rewrite Hm, Hq. apply orb_true_r.
      * intros [[Hf Hnc] Hall]. split; [exact Hnc|].
        intros p0 Hin q Hq. rewrite Hm in Hq. apply orb_true_iff in Hq. destruct Hq as [Hq|Hq].
        -- apply path_eqb_eq in Hq. subst q. rewrite conflict_sym.
           rewrite Forall_forall in Hf. apply Hf. exact Hin.
        -- apply Hall; [right; exact Hin | exact Hq].
    + destruct S as [q [Hq Hc]]. split.
      * intros [t' Ht']. discriminate.
      * intros [_ Hall]. rewrite (Hall p (or_introl eq_refl) q Hq) in Hc. discriminate.
Qed.

Theorem overlap_check_iff : forall ps, overlap_check ps = true <-> no_conflict ps.
Proof.
  intro ps. unfold overlap_check.
  pose proof (tinsert_all_spec ps (Node []) ltac:(intros k s Hk; discriminate)) as S.
  split.
  - intro H. destruct (tinsert_all ps (Node [])) as [t'|]; [|discriminate].
    apply S. eexists; reflexivity.
  - intro H. destruct S as [_ S]. destruct S as [t' Ht'].
    + split; [exact H|]. intros p _ q Hq. rewrite tmem_node_nil in Hq. discriminate.
    + rewrite Ht'. reflexivity.
Qed.

Theorem overlap_check_perm : forall ps qs, Permutation ps qs -> overlap_check ps = overlap_check qs.
Proof.
  intros ps qs HP.
  destruct (overlap_check ps) eqn:E1, (overlap_check qs) eqn:E2; try reflexivity.
  - apply overlap_check_iff in E1. apply (no_conflict_perm _ _ HP) in E1.
    apply overlap_check_iff in E1. congruence.
  - apply overlap_check_iff in E2. apply (no_conflict_perm _ _ (Permutation_sym HP)) in E2.
    apply overlap_check_iff in E2. congruence.
Qed.

(* the compile step inserts declaration by declaration: same thing as the flat list *)
Lemma tinsert_all_app : forall ps qs t,
  tinsert_all (ps ++ qs) t = match tinsert_all ps t with Some t' => tinsert_all qs t' | None => None end.
Proof.
  induction ps as [|p ps IH]; intros qs t; simpl; [reflexivity|].
  destruct (tinsert p t); [apply IH | reflexivity].
Qed.

Fixpoint tinsert_decls (dps : list (list path)) (t : trie) : option trie :=
  match dps with
  | [] => Some t
  | ps :: dps' => match tinsert_all ps t with Some t' => tinsert_decls dps' t' | None => None end
  end.

Lemma tinsert_decls_flat : forall dps t, tinsert_decls dps t = tinsert_all (List.concat dps) t.
Proof.
  induction dps as [|ps dps IH]; intros t; simpl; [reflexivity|].
  rewrite tinsert_all_app. destruct (tinsert_all ps t); [apply IH | reflexivity].
Qed.

(* what [compile] reports as an overlap error is exactly a failing trie insertion *)
Lemma compile_from_overlap : forall env T ds t,
  tinsert_decls (map decl_paths ds) t = None ->
  compile_from env T t ds = CErrOverlap \/ compile_from env T t ds = CErrStatic.
Proof.
  induction ds as [|d ds IH]; intros t H; simpl in *; [discriminate|].
  destruct (tinsert_all (decl_paths d) t) as [t'|]; [|left; reflexivity].
  destruct (match d_maps d with [] => _ | _ => _ end); [|right; reflexivity].
  destruct (IH t' H) as [E|E]; rewrite E; auto.
Qed.

Lemma compile_from_accept : forall env T ds t cks,
  compile_from env T t ds = CAccept cks -> exists t', tinsert_decls (map decl_paths ds) t = Some t'.
Proof.
  induction ds as [|d ds IH]; intros t cks H; simpl in *; [eexists; reflexivity|].
  destruct (tinsert_all (decl_paths d) t) as [t'|]; [|discriminate].
  destruct (match d_maps d with [] => _ | _ => _ end); [|discriminate].
  destruct (compile_from env T t' ds) eqn:E; try discriminate.
  eapply IH; eauto.
Qed.

(* ------------------------------------------------------------ the code before the fix *)

(* End().AddInput(n2, ToFieldPath{I,X}); End().AddInput(n1, ToField(I)) was accepted,
   the reverse order rejected (symbols: I = 10, X = 2) *)
Lemma overlap_v0_order_dependent :
  check_add_all_v0 None [[[10; 2]%N]; [[10%N]]] = true /\ check_add_all_v0 None [[[10%N]]; [[10; 2]%N]] = false.
Proof. vm_compute. split; reflexivity. Qed.

(* a sibling path reset the recorded sub-trie: [I.L.A], [I.X], [I.L] accepted *)
Lemma overlap_v0_sibling_reset :
  check_add_all_v0 None [[[10; 5; 0]%N]; [[10; 2]%N]; [[10; 5]%N]] = true.
Proof. vm_compute. reflexivity. Qed.

(* a mapping to the whole input (empty target path) was never recorded *)
Lemma overlap_v0_whole_ignored :
  check_add_all_v0 None [[[]]; [[2%N]]] = true /\ check_add_all_v0 None [[[2%N]]; []] = true.
Proof. vm_compute. split; reflexivity. Qed.
