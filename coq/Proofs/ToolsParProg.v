(* Proofs/ToolsParProg.v — progress of the parallelRunToolCall protocol (Model/ToolsPar.v): from every
   reachable state the caller can still get through wg.Wait (no deadlock), provided the tools return. *)
From Coq Require Import Permutation.
From Eino Require Import Base.Util Model.Tools Model.ToolsPar Proofs.Tools Proofs.ToolsMore Proofs.ToolsPar.
Local Open Scope string_scope.

Section Progress.
  Variable R : Type.
  Variable exec : nat -> task -> R.
  Variable is_panic : R -> bool.
  Variable perr : R.

  Notation gst := (gst R).
  Notation pst := (pst R).
  Notation pstep := (pstep exec is_panic perr prog_ok).
  Notation prun := (prun exec is_panic perr prog_ok).
  Notation Inv := (Inv R exec is_panic perr).
  Notation ginv_all := (ginv_all R exec is_panic perr).
  Notation pending := (pending R).

  Fixpoint gsum (gs : list gst) : nat :=
    match gs with [] => 0 | g :: gs' => (3 - g_pc g) + gsum gs' end.

  Definition measure (n : nat) (st : pst) : nat :=
    match p_main st with MSpawn k => (n - k) + 2 | MWait => 1 | _ => 0 end + gsum (p_gs st).

  Lemma gsum_set_nth : forall gs j g g',
    nth_error gs j = Some g ->
    gsum (set_nth j g' gs) + (3 - g_pc g) = gsum gs + (3 - g_pc g').
  Proof.
    induction gs as [|a gs IH]; intros j g g' H; [destruct j; discriminate|].
    destruct j; simpl in *.
    - inversion H; subst. lia.
    - specialize (IH j g g' H). lia.
  Qed.

  (* somebody has not called wg.Done yet: that goroutine exists, is spawned and can step *)
  Lemma pending_pos : forall gs k i,
    pending k i gs > 0 ->
    exists j g, nth_error gs j = Some g /\ i + j < k /\ g_pc g < 3.
  Proof.
    induction gs as [|a gs IH]; intros k i H; simpl in H; [lia|].
    unfold pend1 in H.
    destruct (Nat.ltb i k && Nat.ltb (g_pc a) 3) eqn:E.
    - apply andb_prop in E. destruct E as [E1 E2]. apply Nat.ltb_lt in E1. apply Nat.ltb_lt in E2.
      exists 0, a. simpl. repeat split; auto; lia.
    - destruct (IH k (S i)) as [j [g [A [B C]]]]; [lia|].
      exists (S j), g. simpl. repeat split; auto; lia.
  Qed.

  Definition finished (st : pst) : Prop := p_main st = MEnd \/ p_main st = MPanic.

  Lemma some_step : forall tasks st,
    Inv tasks st -> ~ finished st ->
    exists th st', pstep tasks st th = Some st' /\ measure (List.length tasks) st' < measure (List.length tasks) st.
  Proof.
    intros [|t0 ts] st HI Hnf; [contradiction|].
    pose proof HI as HI0.
    unfold Proofs.ToolsPar.Inv in HI. cbv zeta in HI. cbn [List.length] in HI.
    destruct HI as [Hk [Hg [Hc [Hcr Hm]]]].
    pose proof (ginv_all_length _ _ _ _ _ _ _ _ Hg) as Hlen.
    destruct (p_main st) as [k| | |] eqn:Em.
    - (* spawning or about to run task 0 *)
      exists 0. simpl. rewrite Em. simpl in Hk.
      destruct (Nat.ltb k (S (List.length ts))) eqn:Elt.
      + eexists. split; [reflexivity|]. unfold measure. simpl. rewrite Em. simpl.
        apply Nat.ltb_lt in Elt. destruct k; lia.
      + destruct (is_panic (exec 0 t0)); eexists; (split; [reflexivity|]); unfold measure; simpl; rewrite Em; simpl; destruct k; lia.
    - (* waiting *)
      destruct (Nat.eq_dec (p_cnt st) 0) as [E0|Ne].
      + exists 0. simpl. rewrite Em. rewrite E0. simpl. eexists. split; [reflexivity|].
        unfold measure. simpl. rewrite Em. simpl. lia.
      + simpl in Hc. destruct (pending_pos (p_gs st) (S (List.length ts)) 1) as [j [g [Eg [Hj Hpc]]]]; [lia|].
        assert (exists t, nth_error ts j = Some t) as [t Et].
        { destruct (nth_error ts j) eqn:E; eauto. apply nth_error_None in E.
          assert (j < List.length (p_gs st)) by (apply nth_error_Some; congruence). lia. }
        exists (S j). simpl. unfold spawned. rewrite Em. rewrite Eg, Et. unfold gstep.
        destruct (g_pc g) as [|[|[|pc]]] eqn:Epc; try lia; simpl.
        * eexists. split; [reflexivity|]. unfold measure. simpl. rewrite Em.
          match goal with |- context [set_nth j ?g' _] => pose proof (gsum_set_nth _ j g g' Eg) as Hs end.
          rewrite Epc in Hs.
          destruct (is_panic (exec (S j) t)); simpl in Hs; lia.
        * eexists. split; [reflexivity|]. unfold measure. simpl. rewrite Em.
          match goal with |- context [set_nth j ?g' _] => pose proof (gsum_set_nth _ j g g' Eg) as Hs end.
          rewrite Epc in Hs.
          destruct (g_pan g); simpl in Hs; lia.
        * eexists. split; [reflexivity|]. unfold measure. simpl. rewrite Em.
          match goal with |- context [set_nth j ?g' _] => pose proof (gsum_set_nth _ j g g' Eg) as Hs end.
          rewrite Epc in Hs. simpl in Hs. lia.
    - exfalso. apply Hnf. left. exact Em.
    - exfalso. apply Hnf. right. exact Em.
  Qed.

  Lemma prun_app : forall tasks s1 s2 st st',
    prun tasks s1 st = Some st' -> prun tasks (s1 ++ s2) st = prun tasks s2 st'.
  Proof.
    induction s1; simpl; intros s2 st st' H.
    - inversion H; reflexivity.
    - destruct (pstep tasks st a); [|discriminate]. apply IHs1. exact H.
  Qed.

  (* no deadlock: from every reachable state the caller can still get through *)
  Lemma can_finish_from : forall m tasks st,
    Inv tasks st -> measure (List.length tasks) st <= m ->
    exists sch st', prun tasks sch st = Some st' /\ finished st'.
  Proof.
    induction m; intros tasks st HI Hm.
    - destruct (p_main st) eqn:Em.
      + unfold measure in Hm. rewrite Em in Hm. lia.
      + unfold measure in Hm. rewrite Em in Hm. lia.
      + exists [], st. split; [reflexivity|left; assumption].
      + exists [], st. split; [reflexivity|right; assumption].
    - destruct (p_main st) eqn:Em.
      3: { exists [], st. split; [reflexivity|left; assumption]. }
      3: { exists [], st. split; [reflexivity|right; assumption]. }
      + destruct (some_step tasks st HI) as [th [st1 [Hs Hlt]]].
        { intros [F|F]; congruence. }
        destruct (IHm tasks st1) as [sch [st' [Hr Hf]]].
        { eapply inv_step; eauto. }
        { lia. }
        exists (th :: sch), st'. simpl. rewrite Hs. auto.
      + destruct (some_step tasks st HI) as [th [st1 [Hs Hlt]]].
        { intros [F|F]; congruence. }
        destruct (IHm tasks st1) as [sch [st' [Hr Hf]]].
        { eapply inv_step; eauto. }
        { lia. }
        exists (th :: sch), st'. simpl. rewrite Hs. auto.
  Qed.

  Theorem par_no_deadlock : forall tasks sch st,
    tasks <> [] ->
    prun tasks sch (pinit tasks) = Some st ->
    exists sch' st', prun tasks (sch ++ sch') (pinit tasks) = Some st' /\ finished st'.
  Proof.
    intros tasks sch st Hne H.
    pose proof (inv_run _ _ _ _ _ _ _ _ (inv_init _ exec is_panic perr _ Hne) H) as HI.
    destruct (can_finish_from _ tasks st HI (le_n _)) as [sch' [st' [Hr Hf]]].
    exists sch', st'. rewrite (prun_app _ _ _ _ _ H). auto.
  Qed.
End Progress.

(* Invoke: whatever has happened so far, some continuation of the schedule lets the caller finish
   with a result (which, by par_invoke_refines, is the model's) *)
Theorem par_invoke_no_deadlock : forall inv str tasks sch st,
  tasks <> [] ->
  par_invoke inv str prog_ok tasks sch (pinit tasks) = Some st ->
  exists sch' st' r,
    par_invoke inv str prog_ok tasks (sch ++ sch') (pinit tasks) = Some st'
    /\ par_result assemble_invoke tasks st' = Some r.
Proof.
  intros inv str tasks sch st Hne H. unfold par_invoke in *.
  destruct (par_no_deadlock _ _ _ _ _ _ _ Hne H) as [sch' [st' [Hr Hf]]].
  destruct (par_safe _ _ _ _ _ _ _ Hne Hr) as [_ Hm].
  exists sch', st'. unfold par_result. destruct Hf as [Hf|Hf]; rewrite Hf in Hm.
  - eexists. split; [exact Hr|]. rewrite Hf, Hm. reflexivity.
  - eexists. split; [exact Hr|]. rewrite Hf. reflexivity.
Qed.

Theorem par_stream_no_deadlock : forall inv str tasks sch st,
  tasks <> [] ->
  par_stream inv str prog_ok tasks sch (pinit tasks) = Some st ->
  exists sch' st' r,
    par_stream inv str prog_ok tasks (sch ++ sch') (pinit tasks) = Some st'
    /\ par_result assemble_stream tasks st' = Some r.
Proof.
  intros inv str tasks sch st Hne H. unfold par_stream in *.
  destruct (par_no_deadlock _ _ _ _ _ _ _ Hne H) as [sch' [st' [Hr Hf]]].
  destruct (par_safe _ _ _ _ _ _ _ Hne Hr) as [_ Hm].
  exists sch', st'. unfold par_result. destruct Hf as [Hf|Hf]; rewrite Hf in Hm.
  - eexists. split; [exact Hr|]. rewrite Hf, Hm. reflexivity.
  - eexists. split; [exact Hr|]. rewrite Hf. reflexivity.
Qed.
