(* Proofs/SerRefl.v — boolean reflections of the side conditions of the C12 theorems
   ([safe], [registered], [encodable] for the concrete JSON layer), so that the
   non-vacuity examples are closed boolean computations (a [vm_compute] on the Prop
   itself would normalise the open body of [utf8_coerce] and explodes). *)
From Coq Require Import List Bool Arith NArith ZArith String Ascii Lia.
From Eino Require Import Base.Util Base.Universe Model.Ser Model.SerCheckpoint
     Proofs.Ser Proofs.SerLoud Proofs.SerTop.
Import ListNotations.
Local Open Scope bool_scope.

Definition safeb (v : val) : bool := forallb (fun bl => jsafe (snd bl)) (lits_of v).
Lemma safeb_safe : forall v, safeb v = true -> safe v.
Proof.
  intros v H. unfold safe, safeb in *. apply Forall_forall. intros bl Hin.
  rewrite forallb_forall in H. now apply H.
Qed.
Lemma safe_safeb : forall v, safe v -> safeb v = true.
Proof.
  intros v H. unfold safe, safeb in *. apply forallb_forall. intros bl Hin.
  rewrite Forall_forall in H. now apply H.
Qed.

Definition is_some {A} (o : option A) : bool := match o with Some _ => true | None => false end.
Definition registeredb (reg : registry) (v : val) : bool :=
  forallb (fun t => is_some (rm_lookup reg t)) (looked_up v).
Lemma registeredb_registered : forall reg v, registeredb reg v = true -> registered reg v.
Proof.
  intros reg v H. unfold registered, registeredb in *. apply Forall_forall. intros t Hin.
  rewrite forallb_forall in H. specialize (H t Hin). destruct (rm_lookup reg t); [discriminate|discriminate H].
Qed.

Definition encodableb_c (v : val) : bool :=
  forallb (fun bl => is_ok (jenc_c (fst bl) (snd bl)) && is_ok (kenc_c (fst bl) (snd bl))) (lits_of v).
Lemma encodableb_c_encodable : forall v,
  encodableb_c v = true -> encodable lit lit jenc_c kenc_c v.
Proof.
  intros v H. unfold encodable, encodableb_c in *. apply Forall_forall. intros bl Hin.
  rewrite forallb_forall in H. specialize (H bl Hin). apply andb_true_iff in H. destruct H as [H1 H2].
  split.
  - destruct (jenc_c (fst bl) (snd bl)) as [j| |]; try discriminate H1. eauto.
  - destruct (kenc_c (fst bl) (snd bl)) as [j| |]; try discriminate H2. eauto.
Qed.

Definition knownb (reg : registry) (ts : list ty) : bool :=
  forallb (fun t => is_some (rm_lookup reg t)) ts.
Lemma knownb_known : forall reg ts, knownb reg ts = true -> Forall (fun t => rm_lookup reg t <> None) ts.
Proof.
  intros reg ts H. apply Forall_forall. intros t Hin. unfold knownb in H. rewrite forallb_forall in H.
  specialize (H t Hin). destruct (rm_lookup reg t); [discriminate|discriminate H].
Qed.
Definition defs_okb (reg : registry) (v : val) : bool := knownb reg (def_ty v ++ boxed_defs v).
Lemma defs_okb_ok : forall reg v, defs_okb reg v = true -> defs_ok reg v.
Proof. intros reg v H. unfold defs_ok, known. now apply knownb_known. Qed.
Definition defs_registeredb (reg : registry) (v : val) : bool := knownb reg (defs_of v).
Lemma defs_registeredb_ok : forall reg v, defs_registeredb reg v = true -> defs_registered reg v.
Proof. intros reg v H. unfold defs_registered. now apply knownb_known. Qed.
