(* Proofs/SerRefl.v — boolean reflections of the side conditions of the C12 theorems
   ([safe], [registered], [encodable] for the concrete JSON layer), so that the
   non-vacuity examples are closed boolean computations (a [vm_compute] on the Prop
   itself would normalise the open body of [utf8_coerce] and explodes). *)
From Coq Require Import List Bool Arith NArith ZArith String Ascii Lia.
From Eino Require Import Base.Util Base.Universe Model.Ser Model.SerCheckpoint
     Proofs.Ser Proofs.SerLoud Proofs.SerTop.
Import ListNotations.
Local Open Scope bool_scope.

Definition safeb (v : val) : bool := forallb (fun bl => jsafe (snd bl)) (lits_of v).
Lemma safeb_safe : forall v, safeb v = true -> safe v.
Proof.
  intros v H. unfold safe, safeb in *. apply Forall_forall. intros bl Hin.
  rewrite forallb_forall in H. now apply H.
Qed.
Lemma safe_safeb : forall v, safe v -> safeb v = true.
Proof.
  intros v H. unfold safe, safeb in *. apply forallb_forall. intros bl Hin.
  rewrite Forall_forall in H. now apply H.
Qed.

Definition is_some {A} (o : option A) : bool := match o with Some _ => true | None => false end.
Definition registeredb (reg : registry) (v : val) : bool :=
  forallb (fun t => is_some (rm_lookup reg t)) (looked_up v).
Lemma registeredb_registered : forall reg v, registeredb reg v = true -> registered reg v.
Proof.
  intros reg v H. unfold registered, registeredb in *. apply Forall_forall. intros t Hin.
  rewrite forallb_forall in H. specialize (H t Hin). destruct (rm_lookup reg t); [discriminate|discriminate H].
Qed.

Definition encodableb_c (v : val) : bool :=
  forallb (fun bl => is_ok (jenc_c (fst bl) (snd bl)) && is_ok (kenc_c (fst bl) (snd bl))) (lits_of v).
Lemma encodableb_c_encodable : forall v,
  encodableb_c v = true -> encodable lit lit jenc_c kenc_c v.
Proof.
  intros v H. unfold encodable, encodableb_c in *. apply Forall_forall. intros bl Hin.
  rewrite forallb_forall in H. specialize (H bl Hin). apply andb_true_iff in H. destruct H as [H1 H2].
  split.
  - destruct (jenc_c (fst bl) (snd bl)) as [j| |]; try discriminate H1. eauto.
  - destruct (kenc_c (fst bl) (snd bl)) as [j| |]; try discriminate H2. eauto.
Qed.

Definition knownb (reg : registry) (ts : list ty) : bool :=
  forallb (fun t => is_some (rm_lookup reg t)) ts.
Lemma knownb_known : forall reg ts, knownb reg ts = true -> Forall (fun t => rm_lookup reg t <> None) ts.
Proof.
  intros reg ts H. apply Forall_forall. intros t Hin. unfold knownb in H. rewrite forallb_forall in H.
  specialize (H t Hin). destruct (rm_lookup reg t); [discriminate|discriminate H].
Qed.
Definition defs_okb (reg : registry) (v : val) : bool := knownb reg (def_ty v ++ boxed_defs v).
Lemma defs_okb_ok : forall reg v, defs_okb reg v = true -> defs_ok reg v.
Proof. intros reg v H. unfold defs_ok, known. now apply knownb_known. Qed.
Definition defs_registeredb (reg : registry) (v : val) : bool := knownb reg (defs_of v).
Lemma defs_registeredb_ok : forall reg v, defs_registeredb reg v = true -> defs_registered reg v.
Proof. intros reg v H. unfold defs_registered. now apply knownb_known. Qed.

(* ------------------------------------------------------------------ registries built by GenericRegister *)
From Eino Require Import Proofs.SerReg.
Definition reg_wfb (reg : registry) : bool :=
  str_nodup (map fst reg) && ty_nodup (map snd reg) && forallb (fun e => negb (is_ptr (snd e))) reg.
Lemma reg_wfb_ok : forall reg, reg_wfb reg = true -> reg_wf reg.
Proof.
  intros reg H. unfold reg_wfb in H. apply andb_true_iff in H. destruct H as [H H3].
  apply andb_true_iff in H. destruct H as [H1 H2]. repeat split.
  - now apply str_nodup_ok.
  - now apply ty_nodup_ok.
  - apply Forall_forall. intros e Hin. rewrite forallb_forall in H3. specialize (H3 e Hin).
    now apply negb_true_iff in H3.
Qed.
Lemma ckpt_reg_wf : reg_wf (ckpt_reg []).
Proof. apply reg_wfb_ok. vm_compute. reflexivity. Qed.

(* every registry a process can have: init() of serialization and compose, then any
   sequence of RegisterSerializableType calls (refused ones change nothing) *)
Lemma process_registry_names_unique : forall l, NoDup (map fst (register_all (ckpt_reg []) l)).
Proof. intro l. apply (register_all_wf l (ckpt_reg []) ckpt_reg_wf). Qed.

Lemma checkpoint_roundtrip_registered_lemma :
  forall (J JK : Type) (jenc : base -> lit -> res J) (jdec : base -> J -> res lit)
         (kenc : base -> lit -> res JK) (kdec : base -> JK -> res lit)
         (l : list (string * ty)) (uenv : senv),
    (forall b l j, lit_in_base b l = true -> jsafe l = true -> jenc b l = Ok j -> jdec b j = Ok l) ->
    (forall b l j, lit_in_base b l = true -> jsafe l = true -> kenc b l = Ok j -> kdec b j = Ok l) ->
    (forall n ds, struct_fields (ckpt_senv uenv) n = Some ds -> NoDup (map fst ds)) ->
    let reg := register_all (ckpt_reg []) l in
    forall cp oi,
      has_type (ckpt_senv uenv) cp t_checkpoint_ptr = true -> safe cp -> defs_ok reg cp ->
      marshal J JK jenc kenc fixed reg cp = Ok oi ->
      exists cp', unmarshal J JK jdec kdec fixed reg (ckpt_senv uenv) oi = Ok cp' /\
                  cp' ≅ cp /\ ty_of cp' = t_checkpoint_ptr.
Proof.
  intros J JK jenc jdec kenc kdec l uenv jrt krt Henv reg cp oi Ht Hs Hdo H.
  unfold has_type in Ht. apply andb_true_iff in Ht. destruct Ht as [Hwt Hty]. apply ty_eqb_eq in Hty.
  assert (Hi : is_iface (ty_of cp) = false) by (rewrite Hty; reflexivity).
  destruct (enc_dec_roundtrip_lemma J JK jenc jdec kenc kdec reg _ jrt krt
              (process_registry_names_unique l) Henv cp oi Hwt Hi Hs Hdo H)
    as [cp' [Hd [Hv Hdt]]].
  exists cp'. split; [exact Hd|]. split; [exact Hv|].
  rewrite <- Hty. now apply veq_ty_of.
Qed.
(* the checkpoint types stay registered under their names whatever the user registers *)
Lemma checkpoint_types_stay_registered : forall l,
  rm_lookup (register_all (ckpt_reg []) l) (TStruct S_CHECKPOINT) = Some "_eino_checkpoint"%string /\
  rm_lookup (register_all (ckpt_reg []) l) (TStruct S_DAG) = Some "_eino_dag_channel"%string /\
  rm_lookup (register_all (ckpt_reg []) l) (TStruct S_PREGEL) = Some "_eino_pregel_channel"%string.
Proof. intro l. repeat split; apply register_all_keeps; reflexivity. Qed.
