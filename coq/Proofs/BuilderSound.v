(* Proofs/BuilderSound.v — property C20, stretch [compile_sound]:
   whatever sequence of calls was made on a Graph, a Chain or a Workflow, a Compile that
   succeeds was handed a well-formed graph: distinct unreserved node keys, every edge and
   branch between known nodes, no duplicate edge, no single-target branch, state handlers
   only with state, an entry and an exit, every pass-through type inferred, no duplicate
   mapping target, every sub graph valid, compatible options, and — in all-predecessor
   mode — a topological order of the control edges and branches (Proofs/BuilderDag.v).

   Method: [ginv], an invariant of the graph-level state kept by every primitive
   (g_add_node / g_add_edge / g_add_branch / g_compile, whatever they return), hence by
   every call of the three front-ends; plus the checks of a successful [g_compile]. *)
From Eino Require Import Base.Util Model.Builder Proofs.Builder Proofs.BuilderReject Proofs.BuilderDag.
Local Open Scope string_scope.
Local Open Scope list_scope.

Definition keys (g : gstate) : list string := map fst (g_nodes g).
Definition nstates (g : gstate) : list (string * bool) := map (fun kn => (fst kn, n_state (snd kn))) (g_nodes g).
Definition src_ok (g : gstate) (a : string) : Prop := a = START \/ In a (keys g).
Definition dst_ok (g : gstate) (b : string) : Prop := b = END_ \/ In b (keys g).

Record ginv (g : gstate) : Prop := {
  gi_nodup : NoDup (keys g);
  gi_unreserved : forall k, In k (keys g) -> is_se k = false;
  gi_ctrl : forall a b, In (a, b) (g_ctrl g) -> src_ok g a /\ dst_ok g b;
  gi_data : forall a b, In (a, b) (g_data g) -> src_ok g a /\ dst_ok g b;
  gi_ctrl_nodup : NoDup (g_ctrl g);
  gi_data_nodup : NoDup (g_data g);
  gi_branch : forall s ends sk, In (s, (ends, sk)) (g_branches g) ->
      src_ok g s /\ List.length ends <> 1%nat /\ (sk = false -> forall e, In e ends -> dst_ok g e);
  gi_starts : forall e, In e (g_starts g) ->
      In (START, e) (g_ctrl g) \/ exists ends, In (START, (ends, false)) (g_branches g) /\ In e ends;
  gi_ends : forall s, In s (g_ends g) ->
      In (s, END_) (g_ctrl g) \/ exists ends, In (s, (ends, false)) (g_branches g) /\ In END_ ends;
  gi_state : forall k, In (k, true) (nstates g) -> g_state g = true
}.

(* ------------------------------------------------------------------ the skeleton the invariant reads *)
Record same_skel (g g' : gstate) : Prop := {
  ss_keys : keys g' = keys g;
  ss_nstates : nstates g' = nstates g;
  ss_ctrl : g_ctrl g' = g_ctrl g;
  ss_data : g_data g' = g_data g;
  ss_branches : g_branches g' = g_branches g;
  ss_starts : g_starts g' = g_starts g;
  ss_ends : g_ends g' = g_ends g;
  ss_state : g_state g' = g_state g;
  ss_cmp : g_cmp g' = g_cmp g
}.

Lemma ss_refl : forall g, same_skel g g.
Proof. intros; split; reflexivity. Qed.

Lemma ss_trans : forall a b c, same_skel a b -> same_skel b c -> same_skel a c.
Proof. intros a b c [] []; split; congruence. Qed.

Lemma ginv_skel : forall g g', same_skel g g' -> ginv g -> ginv g'.
Proof.
  intros g g' [S1 S2 S3 S4 S5 S6 S7 S8 S9] [I1 I2 I3 I4 I5 I6 I7 I8 I9 I10].
  split; unfold src_ok, dst_ok in *; rewrite ?S1, ?S2, ?S3, ?S4, ?S5, ?S6, ?S7, ?S8; assumption.
Qed.

Lemma ss_set_typed : forall k g, same_skel g (set_typed k g).
Proof.
  intros k g. split; try reflexivity; unfold keys, nstates, set_typed; simpl; rewrite map_map; apply map_ext;
    intros [k0 n0]; simpl; destruct (String.eqb k0 k); reflexivity.
Qed.
Lemma ss_set_pending : forall x g, same_skel g (set_pending x g).
Proof. intros; split; reflexivity. Qed.
Lemma ss_set_fm : forall x g, same_skel g (set_fm x g).
Proof. intros; split; reflexivity. Qed.
Lemma ss_set_h_edges : forall x g, same_skel g (set_h_edges x g).
Proof. intros; split; reflexivity. Qed.
Lemma ss_set_h_prebranch : forall x g, same_skel g (set_h_prebranch x g).
Proof. intros; split; reflexivity. Qed.
Lemma ss_set_h_prenode : forall x g, same_skel g (set_h_prenode x g).
Proof. intros; split; reflexivity. Qed.
Lemma ss_set_err : forall x g, same_skel g (set_err x g).
Proof. intros; split; reflexivity. Qed.
Lemma ss_set_compiled : forall x g, same_skel g (set_compiled x g).
Proof. intros; split; reflexivity. Qed.

Lemma ss_resolve_pass : forall todo g, same_skel g (fst (resolve_pass g todo)).
Proof.
  induction todo as [|[[s e] fs] rest IH]; intros g; simpl; [apply ss_refl|].
  dif.
  - specialize (IH g). destruct (resolve_pass g rest) as [g' kept]; simpl in *. assumption.
  - eapply ss_trans; [|apply IH].
    match goal with |- same_skel g (match fs with [] => ?G1 | _ => _ end) =>
      apply ss_trans with (b := G1); [|destruct fs; [apply ss_refl|]] end.
    + repeat dif; try apply ss_set_typed; apply ss_refl.
    + eapply ss_trans; [apply ss_set_h_edges|apply ss_set_fm].
Qed.

Lemma ss_resolve_once : forall g, same_skel g (resolve_once g).
Proof.
  intros g. unfold resolve_once.
  pose proof (ss_resolve_pass (g_pending g) (set_pending [] g)) as H.
  destruct (resolve_pass (set_pending [] g) (g_pending g)) as [g' kept]; simpl in *.
  eapply ss_trans; [apply ss_set_pending|]. eapply ss_trans; [apply H|apply ss_set_pending].
Qed.

Lemma ss_iter : forall n g, same_skel g (Nat.iter n resolve_once g).
Proof.
  induction n as [|n IH]; intros g; simpl; [apply ss_refl|].
  eapply ss_trans; [apply IH|apply ss_resolve_once].
Qed.

Lemma ss_update_pending : forall g, same_skel g (update_pending g).
Proof. intros g. unfold update_pending. apply ss_iter. Qed.

(* ------------------------------------------------------------------ small facts *)
Lemma has_node_keys : forall g k, has_node g k = true <-> In k (keys g).
Proof.
  intros g k. unfold has_node, keys. induction (g_nodes g) as [|[k0 n0] l IH]; simpl.
  - split; [discriminate|contradiction].
  - destruct (String.eqb k k0) eqn:E.
    + apply String.eqb_eq in E; subst. simpl. split; auto.
    + rewrite IH. split; [auto|]. intros [H|H]; [subst; rewrite String.eqb_refl in E; discriminate|assumption].
Qed.

Lemma has_node_false : forall g k, has_node g k = false <-> ~ In k (keys g).
Proof. intros. rewrite <- has_node_keys. destruct (has_node g k); split; congruence. Qed.

Lemma pmem_In : forall a b l, pmem a b l = true <-> In (a, b) l.
Proof.
  intros a b l. induction l as [|[x y] l IH]; simpl; [split; [discriminate|contradiction]|].
  rewrite orb_true_iff, andb_true_iff, !String.eqb_eq, IH. split.
  - intros [[H1 H2]|H]; [subst; auto|auto].
  - intros [H|H]; [inversion H; auto|auto].
Qed.

Lemma pmem_false : forall a b l, pmem a b l = false <-> ~ In (a, b) l.
Proof. intros. rewrite <- pmem_In. destruct (pmem a b l); split; congruence. Qed.

Lemma NoDup_snoc : forall {A} (l : list A) x, NoDup l -> ~ In x l -> NoDup (l ++ [x]).
Proof.
  intros A l x N H. induction l as [|y l IH]; simpl.
  - constructor; [intros []|constructor].
  - inversion N; subst. constructor.
    + intros C. apply in_app_or in C. destruct C as [C|[C|[]]]; [contradiction|]. subst. apply H. left; reflexivity.
    + apply IH; [assumption|]. intros C. apply H. right; assumption.
Qed.

Lemma src_ok_of_check : forall g s,
  (negb (has_node g s) && negb (String.eqb s START)) = false -> src_ok g s.
Proof.
  intros g s H. unfold src_ok. destruct (has_node g s) eqn:E.
  - right. apply has_node_keys; assumption.
  - simpl in H. apply negb_false_iff in H. apply String.eqb_eq in H. left; assumption.
Qed.

Lemma dst_ok_of_check : forall g e,
  (negb (has_node g e) && negb (String.eqb e END_)) = false -> dst_ok g e.
Proof.
  intros g e H. unfold dst_ok. destruct (has_node g e) eqn:E.
  - right. apply has_node_keys; assumption.
  - simpl in H. apply negb_false_iff in H. apply String.eqb_eq in H. left; assumption.
Qed.

Lemma src_ok_skel : forall g g' a, keys g' = keys g -> src_ok g a -> src_ok g' a.
Proof. unfold src_ok. intros g g' a H. rewrite H. auto. Qed.
Lemma dst_ok_skel : forall g g' a, keys g' = keys g -> dst_ok g a -> dst_ok g' a.
Proof. unfold dst_ok. intros g g' a H. rewrite H. auto. Qed.

(* ------------------------------------------------------------------ the primitives keep the invariant *)
Lemma ginv_init : forall c st, ginv (g_init c st).
Proof.
  intros c st. split; simpl; try (intros; contradiction); try constructor.
Qed.

Lemma ginv_fail : forall g e, ginv g -> ginv (fst (fail g e)).
Proof. intros g e I. simpl. eapply ginv_skel; [apply ss_set_err|assumption]. Qed.

Lemma init_node_state : forall nk ok ns, n_state (init_node nk ok ns) = ns.
Proof. intros [] ok ns; reflexivity. Qed.

Lemma ginv_add_node : forall g k nk ns nko ok, ginv g -> ginv (fst (g_add_node g k nk ns nko ok)).
Proof.
  intros g k nk ns nko ok I. unfold g_add_node.
  destruct (g_err g); [assumption|]. destruct (g_compiled g); [assumption|].
  destruct (is_se k) eqn:R; [apply ginv_fail; assumption|].
  destruct (has_node g k) eqn:D; [apply ginv_fail; assumption|].
  destruct (ns && negb (g_state g)) eqn:NS; [apply ginv_fail; assumption|].
  dif; [apply ginv_fail; assumption|]. simpl.
  destruct I as [I1 I2 I3 I4 I5 I6 I7 I8 I9 I10].
  assert (K : keys (set_nodes (g_nodes g ++ [(k, init_node nk ok ns)]) g) = keys g ++ [k]).
  { unfold keys. simpl. rewrite map_app. reflexivity. }
  split; unfold src_ok, dst_ok in *; rewrite ?K; simpl.
  - apply NoDup_snoc; [assumption|]. apply has_node_false; assumption.
  - intros x X. apply in_app_or in X. destruct X as [X|[X|[]]]; [auto|subst; assumption].
  - intros a b H. destruct (I3 a b H) as [[A|A] [B|B]]; split; auto using in_or_app.
  - intros a b H. destruct (I4 a b H) as [[A|A] [B|B]]; split; auto using in_or_app.
  - assumption.
  - assumption.
  - intros s ends sk H. destruct (I7 s ends sk H) as [[A|A] [L E]]; (split; [auto using in_or_app|split; [assumption|]]);
      intros SK e IE; destruct (E SK e IE); auto using in_or_app.
  - assumption.
  - assumption.
  - intros x X. unfold nstates in X. simpl in X. rewrite map_app in X. apply in_app_or in X.
    destruct X as [X|[X|[]]]; [apply (I10 x); assumption|].
    simpl in X. rewrite init_node_state in X. inversion X; subst.
    destruct (g_state g); [reflexivity|discriminate].
Qed.

(* the control part of a successful addEdge *)
Definition add_ctrl (g : gstate) (s e : string) : gstate :=
  let ga := set_ctrl (g_ctrl g ++ [(s, e)]) g in
  let gb := if String.eqb s START then set_starts (g_starts ga ++ [e]) ga else ga in
  if String.eqb e END_ then set_ends (g_ends gb ++ [s]) gb else gb.

Lemma add_ctrl_fields : forall g s e,
  keys (add_ctrl g s e) = keys g /\ nstates (add_ctrl g s e) = nstates g /\
  g_ctrl (add_ctrl g s e) = g_ctrl g ++ [(s, e)] /\ g_data (add_ctrl g s e) = g_data g /\
  g_branches (add_ctrl g s e) = g_branches g /\ g_state (add_ctrl g s e) = g_state g /\
  g_starts (add_ctrl g s e) = (if String.eqb s START then g_starts g ++ [e] else g_starts g) /\
  g_ends (add_ctrl g s e) = (if String.eqb e END_ then g_ends g ++ [s] else g_ends g).
Proof.
  intros g s e. unfold add_ctrl. destruct (String.eqb s START), (String.eqb e END_); simpl; repeat split; reflexivity.
Qed.

Lemma ginv_add_ctrl : forall g s e,
  ginv g -> src_ok g s -> dst_ok g e -> ~ In (s, e) (g_ctrl g) -> ginv (add_ctrl g s e).
Proof.
  intros g s e [I1 I2 I3 I4 I5 I6 I7 I8 I9 I10] S D N.
  destruct (add_ctrl_fields g s e) as [F1 [F2 [F3 [F4 [F5 [F6 [F7 F8]]]]]]].
  split; unfold src_ok, dst_ok in *; rewrite ?F1, ?F2, ?F3, ?F4, ?F5, ?F6; try assumption.
  - intros a b H. apply in_app_or in H. destruct H as [H|[H|[]]]; [auto|inversion H; subst; auto].
  - apply NoDup_snoc; assumption.
  - rewrite F7. intros x X. destruct (String.eqb s START) eqn:E.
    + apply String.eqb_eq in E; subst s. apply in_app_or in X. destruct X as [X|[X|[]]].
      * destruct (I8 x X) as [H|H]; [left; apply in_or_app; auto|right; assumption].
      * subst x. left. apply in_or_app. right. left. reflexivity.
    + destruct (I8 x X) as [H|H]; [left; apply in_or_app; auto|right; assumption].
  - rewrite F8. intros x X. destruct (String.eqb e END_) eqn:E.
    + apply String.eqb_eq in E; subst e. apply in_app_or in X. destruct X as [X|[X|[]]].
      * destruct (I9 x X) as [H|H]; [left; apply in_or_app; auto|right; assumption].
      * subst x. left. apply in_or_app. right. left. reflexivity.
    + destruct (I9 x X) as [H|H]; [left; apply in_or_app; auto|right; assumption].
Qed.

Lemma ginv_add_data : forall g s e,
  ginv g -> src_ok g s -> dst_ok g e -> ~ In (s, e) (g_data g) -> ginv (set_data (g_data g ++ [(s, e)]) g).
Proof.
  intros g s e [I1 I2 I3 I4 I5 I6 I7 I8 I9 I10] S D N.
  split; simpl; try assumption.
  - intros a b H. apply in_app_or in H. destruct H as [H|[H|[]]]; [apply I4; assumption|inversion H; subst; auto].
  - apply NoDup_snoc; assumption.
Qed.

Lemma ginv_add_edge : forall g s e nc nd fs, ginv g -> ginv (fst (g_add_edge g s e nc nd fs)).
Proof.
  intros g s e nc nd fs I. unfold g_add_edge.
  destruct (g_err g); [assumption|]. destruct (g_compiled g); [assumption|].
  destruct (nc && nd); [assumption|].
  destruct (String.eqb s END_); [apply ginv_fail; assumption|].
  destruct (String.eqb e START); [apply ginv_fail; assumption|].
  destruct (negb (has_node g s) && negb (String.eqb s START)) eqn:CS; [apply ginv_fail; assumption|].
  destruct (negb (has_node g e) && negb (String.eqb e END_)) eqn:CE; [apply ginv_fail; assumption|].
  pose proof (src_ok_of_check _ _ CS) as S. pose proof (dst_ok_of_check _ _ CE) as D.
  destruct (negb nc && pmem s e (g_ctrl g)) eqn:DC; [apply ginv_fail; assumption|].
  fold (add_ctrl g s e).
  assert (I1 : ginv (if nc then g else add_ctrl g s e)).
  { destruct nc; [assumption|]. simpl in DC. apply ginv_add_ctrl; try assumption. apply pmem_false; assumption. }
  assert (K1 : keys (if nc then g else add_ctrl g s e) = keys g).
  { destruct nc; [reflexivity|]. apply (add_ctrl_fields g s e). }
  set (g1 := if nc then g else add_ctrl g s e) in *.
  destruct nd; [assumption|].
  destruct (pmem s e (g_data g1)) eqn:DD; [apply ginv_fail; assumption|].
  simpl.
  pose proof (ss_update_pending (set_pending (g_pending g1 ++ [(s, e, fs)]) g1)) as SS.
  set (g2 := update_pending (set_pending (g_pending g1 ++ [(s, e, fs)]) g1)) in *.
  assert (SS' : same_skel g1 g2) by (eapply ss_trans; [apply ss_set_pending|exact SS]).
  apply ginv_add_data.
  - eapply ginv_skel; eassumption.
  - apply (src_ok_skel g). { rewrite (ss_keys _ _ SS'). assumption. } assumption.
  - apply (dst_ok_skel g). { rewrite (ss_keys _ _ SS'). assumption. } assumption.
  - rewrite (ss_data _ _ SS'). apply pmem_false; assumption.
Qed.

(* the per-end-node part of addBranch *)
Lemma branch_ends_spec : forall ends g s g',
  branch_ends g s ends = (g', None) ->
  keys g' = keys g /\ nstates g' = nstates g /\ g_ctrl g' = g_ctrl g /\ g_data g' = g_data g /\
  g_branches g' = g_branches g /\ g_state g' = g_state g /\
  (forall x, In x (g_starts g') -> In x (g_starts g) \/ (s = START /\ In x ends)) /\
  (forall x, In x (g_ends g') -> In x (g_ends g) \/ (x = s /\ In END_ ends)) /\
  (forall e, In e ends -> dst_ok g e).
Proof.
  induction ends as [|e rest IH]; intros g s g' H; simpl in H.
  - inversion H; subst. repeat split; auto. intros e [].
  - destruct (negb (has_node g e) && negb (String.eqb e END_)) eqn:CE; [discriminate|].
    pose proof (dst_ok_of_check _ _ CE) as D.
    set (g1 := update_pending (set_pending (g_pending g ++ [(s, e, [])]) g)) in *.
    assert (S1 : same_skel g g1).
    { eapply ss_trans; [apply ss_set_pending|apply ss_update_pending]. }
    set (g2 := if String.eqb s START then set_starts (g_starts g1 ++ [e]) g1 else g1) in *.
    set (g3 := if String.eqb e END_ then set_ends (g_ends g2 ++ [s]) g2 else g2) in *.
    destruct (IH _ _ _ H) as [A1 [A2 [A3 [A4 [A5 [A6 [A7 [A8 A9]]]]]]]].
    assert (F : keys g3 = keys g /\ nstates g3 = nstates g /\ g_ctrl g3 = g_ctrl g /\ g_data g3 = g_data g /\
                g_branches g3 = g_branches g /\ g_state g3 = g_state g /\
                g_starts g3 = (if String.eqb s START then g_starts g ++ [e] else g_starts g) /\
                g_ends g3 = (if String.eqb e END_ then g_ends g ++ [s] else g_ends g)).
    { destruct S1 as [B1 B2 B3 B4 B5 B6 B7 B8 B9]. unfold g3, g2.
      destruct (String.eqb s START), (String.eqb e END_); simpl; rewrite ?B6, ?B7; repeat split; assumption. }
    destruct F as [F1 [F2 [F3 [F4 [F5 [F6 [F7 F8]]]]]]].
    repeat split; try congruence.
    + intros x X. destruct (A7 x X) as [Y|[Y1 Y2]]; [|right; split; [assumption|right; assumption]].
      rewrite F7 in Y. destruct (String.eqb s START) eqn:E; [|left; assumption].
      apply String.eqb_eq in E. apply in_app_or in Y. destruct Y as [Y|[Y|[]]]; [left; assumption|].
      right. split; [assumption|left; assumption].
    + intros x X. destruct (A8 x X) as [Y|[Y1 Y2]]; [|right; split; [assumption|right; assumption]].
      rewrite F8 in Y. destruct (String.eqb e END_) eqn:E; [|left; assumption].
      apply String.eqb_eq in E. apply in_app_or in Y. destruct Y as [Y|[Y|[]]]; [left; assumption|].
      right. split; [symmetry; assumption|left; assumption].
    + intros x [X|X]; [subst; assumption|].
      apply (dst_ok_skel g3); [congruence|]. apply A9; assumption.
Qed.

Lemma ginv_add_branch : forall g s ends sk, ginv g -> ginv (fst (g_add_branch g s ends sk)).
Proof.
  intros g s ends sk I. unfold g_add_branch.
  destruct (g_err g); [assumption|]. destruct (g_compiled g); [assumption|].
  destruct (String.eqb s END_); [apply ginv_fail; assumption|].
  destruct (negb (has_node g s) && negb (String.eqb s START)) eqn:CS; [apply ginv_fail; assumption|].
  pose proof (src_ok_of_check _ _ CS) as S.
  destruct (Nat.eqb (List.length ends) 1) eqn:L1; [apply ginv_fail; assumption|].
  apply Nat.eqb_neq in L1.
  set (g1 := match alist_get s (g_nodes g) with
             | Some n => if nkind_eqb (n_kind n) NPass && negb (n_out n) then update_pending (set_typed s g) else g
             | None => g end).
  assert (S1 : same_skel g g1).
  { unfold g1. destruct (alist_get s (g_nodes g)); [dif; [eapply ss_trans; [apply ss_set_typed|apply ss_update_pending]|apply ss_refl]|apply ss_refl]. }
  set (g2 := set_h_prebranch (g_h_prebranch g1 ++ [s]) g1).
  assert (S2 : same_skel g g2) by (eapply ss_trans; [exact S1|apply ss_set_h_prebranch]).
  pose proof (ginv_skel _ _ S2 I) as I2.
  destruct sk.
  - (* skipData: the branch is recorded, nothing else *)
    simpl. destruct I2 as [J1 J2 J3 J4 J5 J6 J7 J8 J9 J10].
    split; simpl; try assumption.
    + intros s0 ends0 sk0 H. apply in_app_or in H. destruct H as [H|[H|[]]]; [apply J7; assumption|].
      inversion H; subst. split; [apply (src_ok_skel g); [apply (ss_keys _ _ S2)|assumption]|].
      split; [assumption|discriminate].
    + intros e H. destruct (J8 e H) as [X|[ends0 [X1 X2]]]; [left; assumption|].
      right. exists ends0. split; [apply in_or_app; left; assumption|assumption].
    + intros e H. destruct (J9 e H) as [X|[ends0 [X1 X2]]]; [left; assumption|].
      right. exists ends0. split; [apply in_or_app; left; assumption|assumption].
  - destruct (branch_ends g2 s ends) as [g3 [er|]] eqn:BE; [apply ginv_fail; assumption|].
    simpl.
    destruct (branch_ends_spec _ _ _ _ BE) as [A1 [A2 [A3 [A4 [A5 [A6 [A7 [A8 A9]]]]]]]].
    destruct I2 as [J1 J2 J3 J4 J5 J6 J7 J8 J9 J10].
    set (G := set_branches (g_branches g3 ++ [(s, (ends, false))]) g3).
    assert (K1 : keys G = keys g2) by exact A1.
    assert (K2 : nstates G = nstates g2) by exact A2.
    assert (K3 : g_ctrl G = g_ctrl g2) by exact A3.
    assert (K4 : g_data G = g_data g2) by exact A4.
    assert (K5 : g_branches G = g_branches g2 ++ [(s, (ends, false))]) by (simpl; rewrite A5; reflexivity).
    assert (K6 : g_state G = g_state g2) by exact A6.
    assert (K7 : g_starts G = g_starts g3) by reflexivity.
    assert (K8 : g_ends G = g_ends g3) by reflexivity.
    clearbody G.
    split; unfold src_ok, dst_ok in *; rewrite ?K1, ?K2, ?K3, ?K4, ?K5, ?K6, ?K7, ?K8; try assumption.
    + intros s0 ends0 sk0 H. apply in_app_or in H. destruct H as [H|[H|[]]]; [apply J7; assumption|].
      inversion H; subst. split; [rewrite (ss_keys _ _ S2); assumption|]. split; [assumption|].
      intros _ e E. apply A9; assumption.
    + intros e H. destruct (A7 e H) as [X|[X1 X2]].
      * destruct (J8 e X) as [Y|[ends0 [Y1 Y2]]]; [left; assumption|].
        right. exists ends0. split; [apply in_or_app; left; assumption|assumption].
      * subst s. right. exists ends. split; [apply in_or_app; right; left; reflexivity|assumption].
    + intros e H. destruct (A8 e H) as [X|[X1 X2]].
      * destruct (J9 e X) as [Y|[ends0 [Y1 Y2]]]; [left; assumption|].
        right. exists ends0. split; [apply in_or_app; left; assumption|assumption].
      * subst e. right. exists ends. split; [apply in_or_app; right; left; reflexivity|assumption].
Qed.

Lemma g_compile_skel : forall v g o, same_skel g (fst (g_compile v g o)).
Proof.
  intros v g o. unfold g_compile. destruct (g_err g); [apply ss_refl|].
  repeat (dif; try apply ss_refl; try apply ss_set_h_prenode); simpl;
    try (eapply ss_trans; [|apply ss_set_compiled]); try apply ss_set_h_prenode; apply ss_refl.
Qed.

Lemma ginv_compile : forall v g o, ginv g -> ginv (fst (g_compile v g o)).
Proof. intros v g o I. eapply ginv_skel; [apply g_compile_skel|assumption]. Qed.

(* ------------------------------------------------------------------ Graph *)
Lemma ginv_gstep : forall v g c, ginv g -> ginv (fst (gstep v g c)).
Proof.
  intros v g [] I; simpl; auto using ginv_add_node, ginv_add_edge, ginv_add_branch, ginv_compile.
Qed.

Section RunInv.
  Context {S C : Type} (step : S -> C -> S * outcome) (P : S -> Prop).
  Hypothesis step_keeps : forall s c, P s -> P (fst (step s c)).
  Lemma run_keeps : forall cs s, P s -> P (final step s cs).
  Proof.
    unfold final. induction cs as [|c cs IH]; intros s H; simpl; [assumption|].
    pose proof (step_keeps s c H) as H1. destruct (step s c) as [s1 o]; simpl in *.
    specialize (IH s1 H1). destruct (run_calls step s1 cs); simpl in *; assumption.
  Qed.
End RunInv.

(* ------------------------------------------------------------------ lifting a graph-level invariant *)
(* Chain and Workflow only ever touch their graph through the primitives: any predicate
   the primitives keep is kept by every call of the two front-ends. *)
(* the END edges added by addEndIfNeeded *)
Fixpoint end_edges (c : cstate) (g : gstate) (ps : list string) : cstate * option ecls :=
  match ps with
  | [] => (c_set_has_end true (c_set_g g c), None)
  | p :: rest =>
    let '(g', oo) := g_add_edge g p END_ false false [] in
    match err_of oo with Some e => (c_set_g g' c, Some e) | None => end_edges c g' rest end
  end.

Lemma c_compile_unfold : forall v c o,
  c_compile v c o =
  let pre := if negb (v_chain_err_first v) && c_has_end c then (c, None)
             else match c_err c with
                  | Some e => (c, Some e)
                  | None => if c_has_end c then (c, None) else
                            if is_nil (c_pre c) then (c, Some EChainEmpty) else end_edges c (c_g c) (c_pre c)
                  end in
  match pre with
  | (c', Some e) => (c', OErr e)
  | (c', None) => let '(g', out) := g_compile v (c_g c') o in (c_set_g g' c', out)
  end.
Proof.
  intros v c o. unfold c_compile.
  assert (E : forall ps g,
    (fix ends (g : gstate) (ps : list string) {struct ps} : cstate * option ecls :=
       match ps with
       | [] => (c_set_has_end true (c_set_g g c), None)
       | p :: rest =>
         let '(g', oo) := g_add_edge g p END_ false false [] in
         match err_of oo with Some e => (c_set_g g' c, Some e) | None => ends g' rest end
       end) g ps = end_edges c g ps).
  { induction ps as [|p rest IH]; intros g; simpl; [reflexivity|].
    destruct (g_add_edge g p END_ false false []) as [g' oo]. destruct (err_of oo); [reflexivity|apply IH]. }
  rewrite E. reflexivity.
Qed.


Section Lift.
  Variable P : gstate -> Prop.
  Hypothesis P_add_node : forall g k nk ns nko ok, P g -> P (fst (g_add_node g k nk ns nko ok)).
  Hypothesis P_add_edge : forall g s e nc nd fs, P g -> P (fst (g_add_edge g s e nc nd fs)).
  Hypothesis P_add_branch : forall g s ends sk, P g -> P (fst (g_add_branch g s ends sk)).
  Hypothesis P_compile : forall v g o, P g -> P (fst (g_compile v g o)).
  Hypothesis P_set_err : forall g e, P g -> P (set_err e g).
  Hypothesis P_set_prenode : forall g x, P g -> P (set_h_prenode x g).

  Lemma P_gstep : forall v g c, P g -> P (fst (gstep v g c)).
  Proof. intros v g [] I; simpl; auto. Qed.

Lemma P_add_edges_from : forall pres g k, P g -> P (fst (add_edges_from g pres k)).
Proof.
  induction pres as [|p rest IH]; intros g k I; simpl; [assumption|].
  pose proof (P_add_edge g p k false false [] I) as I1.
  destruct (g_add_edge g p k false false []) as [g' o]; simpl in *.
  destruct (err_of o); [assumption|apply IH; assumption].
Qed.

Lemma P_par_nodes : forall items g start pref i acc, P g -> P (fst (fst (par_nodes g start pref i items acc))).
Proof.
  induction items as [|[[ok nk] key] rest IH]; intros g start pref i acc I; simpl; [assumption|].
  match goal with |- context[g_add_node g ?K nk false false true] =>
    pose proof (P_add_node g K nk false false true I) as I1;
    destruct (g_add_node g K nk false false true) as [g1 o1] end; simpl in *.
  destruct (err_of o1); [assumption|].
  match goal with |- context[g_add_edge g1 start ?K false false []] =>
    pose proof (P_add_edge g1 start K false false [] I1) as I2;
    destruct (g_add_edge g1 start K false false []) as [g2 o2] end; simpl in *.
  destruct (err_of o2); [assumption|]. apply IH; assumption.
Qed.

Lemma P_br_nodes : forall items g pref acc, P g -> P (fst (fst (br_nodes g pref items acc))).
Proof.
  induction items as [|[[bk nk] key] rest IH]; intros g pref acc I; simpl; [assumption|].
  match goal with |- context[g_add_node g ?K nk false false false] =>
    pose proof (P_add_node g K nk false false false I) as I1;
    destruct (g_add_node g K nk false false false) as [g1 o1] end; simpl in *.
  destruct (err_of o1); [assumption|]. apply IH; assumption.
Qed.

Definition lcinv (c : cstate) : Prop := P (c_g c).

Lemma lcinv_report : forall c e, lcinv c -> lcinv (c_report c e).
Proof. intros c e I. unfold lcinv. rewrite c_report_g. assumption. Qed.

Lemma lcinv_append : forall c nk key ns, lcinv c -> lcinv (c_append c nk key ns).
Proof.
  intros c nk key ns I. unfold c_append. destruct (c_err c); [assumption|].
  dif; [apply lcinv_report; assumption|].
  match goal with |- context[g_add_node (c_g (c_bump c)) ?K nk ns ?B false] =>
    pose proof (P_add_node (c_g (c_bump c)) K nk ns B false I) as I1;
    destruct (g_add_node (c_g (c_bump c)) K nk ns B false) as [g1 o] end; simpl in I1.
  destruct (err_of o); [apply lcinv_report; exact I1|].
  match goal with |- context[add_edges_from g1 ?P ?K] =>
    pose proof (P_add_edges_from P g1 K I1) as I2; destruct (add_edges_from g1 P K) as [g2 [e|]] end;
    simpl in I2; [apply lcinv_report|]; exact I2.
Qed.

Lemma lcinv_parallel : forall c items, lcinv c -> lcinv (c_parallel c items).
Proof.
  intros c items I. unfold c_parallel.
  repeat (dif; [apply lcinv_report; assumption|]).
  destruct (c_start_node c); [|apply lcinv_report; assumption].
  match goal with |- context[par_nodes ?G ?A ?B ?C ?D ?E] =>
    pose proof (P_par_nodes D G A B C E I) as I1; destruct (par_nodes G A B C D E) as [[g' ks] [e|]] end;
    simpl in I1; [apply lcinv_report|]; exact I1.
Qed.

Lemma lcinv_branch : forall c items, lcinv c -> lcinv (c_branch c items).
Proof.
  intros c items I. unfold c_branch.
  dif; [apply lcinv_report; assumption|].
  destruct items as [|i1 [|i2 rest]]; try (apply lcinv_report; assumption).
  destruct (c_start_node c); [|apply lcinv_report; assumption].
  match goal with |- context[br_nodes ?G ?A ?B ?C] =>
    pose proof (P_br_nodes B G A C I) as I1; destruct (br_nodes G A B C) as [[g' ks] [e|]] end;
    simpl in I1; [apply lcinv_report; exact I1|].
  pose proof (P_add_branch g' s ks false I1) as I2.
  destruct (g_add_branch g' s ks false) as [g2 o]; simpl in I2.
  destruct (err_of o); [apply lcinv_report|]; exact I2.
Qed.

Lemma lcinv_end_edges : forall ps c g, P g -> lcinv (fst (end_edges c g ps)).
Proof.
  induction ps as [|p rest IH]; intros c g I; simpl; [exact I|].
  pose proof (P_add_edge g p END_ false false [] I) as I1.
  destruct (g_add_edge g p END_ false false []) as [g' oo]; simpl in I1.
  destruct (err_of oo); [exact I1|apply IH; assumption].
Qed.

Lemma lcinv_compile : forall v c o, lcinv c -> lcinv (fst (c_compile v c o)).
Proof.
  intros v c o I. rewrite c_compile_unfold.
  assert (Q : forall pre : cstate * option ecls, lcinv (fst pre) ->
    lcinv (fst (match pre with
               | (c', Some e) => (c', OErr e)
               | (c', None) => let '(g', out) := g_compile v (c_g c') o in (c_set_g g' c', out)
               end))).
  { intros [c' [e|]] H; simpl in *; [assumption|].
    pose proof (P_compile v (c_g c') o H) as H1. destruct (g_compile v (c_g c') o) as [g' out]. exact H1. }
  apply Q.
  dif; [assumption|]. destruct (c_err c); [assumption|]. dif; [assumption|]. dif; [assumption|].
  apply lcinv_end_edges. assumption.
Qed.

Lemma lcinv_cstep : forall v c call, lcinv c -> lcinv (fst (cstep v c call)).
Proof.
  intros v c [] I; simpl; auto using lcinv_append, lcinv_parallel, lcinv_branch, lcinv_compile.
Qed.

Lemma P_run_input : forall g k m i, P g -> P (fst (fst (run_input g k m i))).
Proof.
  intros g k m i I. unfold run_input. destruct (wi_kind i).
  - destruct (check_mapped m (wi_fields i)) as [m' [e|]]; [assumption|].
    pose proof (P_add_edge g (wi_from i) k false false (wi_fields i) I) as I1.
    destruct (g_add_edge g (wi_from i) k false false (wi_fields i)); exact I1.
  - destruct (check_mapped m (wi_fields i)) as [m' [e|]]; [assumption|].
    pose proof (P_add_edge g (wi_from i) k true false (wi_fields i) I) as I1.
    destruct (g_add_edge g (wi_from i) k true false (wi_fields i)); exact I1.
  - pose proof (P_add_edge g (wi_from i) k false true [] I) as I1.
    destruct (g_add_edge g (wi_from i) k false true []); exact I1.
Qed.

Lemma P_run_inputs : forall is g k m, P g -> P (fst (fst (run_inputs g k m is))).
Proof.
  induction is as [|i rest IH]; intros g k m I; simpl; [assumption|].
  pose proof (P_run_input g k m i I) as I1.
  destruct (run_input g k m i) as [[g' m'] [e|]]; simpl in *; [assumption|apply IH; assumption].
Qed.

Definition lwinv (w : wstate) : Prop := P (w_g w).

Lemma lwinv_run_nodes : forall order w, lwinv w -> lwinv (fst (run_nodes w order)).
Proof.
  induction order as [|k rest IH]; intros w I; simpl; [assumption|].
  destruct (alist_get k (w_nodes w)) as [n|]; [|apply IH; assumption].
  pose proof (P_run_inputs (wn_pending n) (w_g w) k (wn_mapped n) I) as I1.
  destruct (run_inputs (w_g w) k (wn_mapped n) (wn_pending n)) as [[g' m'] [e|]]; simpl in *; [exact I1|].
  apply IH. exact I1.
Qed.

Lemma lwinv_run_branches : forall v bs w, lwinv w -> lwinv (fst (run_branches v w bs)).
Proof.
  induction bs as [|[from ends] rest IH]; intros w I; simpl; [assumption|].
  dif.
  - dif; [|assumption]. unfold lwinv. simpl. apply P_set_err. exact I.
  - pose proof (P_add_branch (w_g w) from ends true I) as I1.
    destruct (g_add_branch (w_g w) from ends true) as [g' o]. apply IH. exact I1.
Qed.

Lemma lwinv_run_statics : forall v order w, lwinv w -> lwinv (fst (run_statics v w order)).
Proof.
  induction order as [|k rest IH]; intros w I; simpl; [assumption|].
  destruct (alist_get k (w_nodes w)) as [n|]; [|apply IH; assumption].
  destruct (wn_static n) as [|f fs]; [apply IH; assumption|].
  dif; [assumption|].
  destruct (check_mapped (wn_mapped n) (f :: fs)) as [m' [e|]]; [exact I|].
  apply IH. unfold lwinv. simpl. apply P_set_prenode. exact I.
Qed.

Lemma lwinv_compile : forall v w o ord sord, lwinv w -> lwinv (fst (w_compile v w o ord sord)).
Proof.
  intros v w o ord sord I. unfold w_compile. destruct (g_err (w_g w)); [assumption|].
  pose proof (lwinv_run_branches v (w_branches w) w I) as I1.
  destruct (run_branches v w (w_branches w)) as [w1 [out|]]; simpl in I1; [assumption|].
  pose proof (lwinv_run_nodes (ord ++ map fst (w_nodes w1)) w1 I1) as I2.
  destruct (run_nodes w1 (ord ++ map fst (w_nodes w1))) as [w2 [e|]]; simpl in I2; [assumption|].
  pose proof (lwinv_run_statics v (sord ++ map fst (w_nodes w2)) w2 I2) as I3.
  destruct (run_statics v w2 (sord ++ map fst (w_nodes w2))) as [w3 [e|]]; simpl in I3; [assumption|].
  pose proof (P_compile v (w_g w3) o I3) as I4.
  destruct (g_compile v (w_g w3) o) as [g' out]. exact I4.
Qed.

Lemma lwinv_wstep : forall v w call, lwinv w -> lwinv (fst (wstep v w call)).
Proof.
  intros v w [] I; simpl; unfold w_add_input.
  - pose proof (P_add_node (w_g w) k nk need_state false false I) as I1.
    destruct (g_add_node (w_g w) k nk need_state false false). exact I1.
  - destruct (alist_get _ _); exact I.
  - exact I.
  - destruct (alist_get _ _); exact I.
  - destruct (alist_get _ _); exact I.
  - apply lwinv_compile; assumption.
Qed.

End Lift.

Lemma ginv_set_err : forall g e, ginv g -> ginv (set_err e g).
Proof. intros g e I. eapply ginv_skel; [apply ss_set_err|assumption]. Qed.

Definition cinv : cstate -> Prop := lcinv ginv.
Definition winv : wstate -> Prop := lwinv ginv.
Definition cinv_end_edges := lcinv_end_edges ginv ginv_add_edge.
Definition cinv_cstep := lcinv_cstep ginv ginv_add_node ginv_add_edge ginv_add_branch ginv_compile.
Definition winv_run_nodes := lwinv_run_nodes ginv ginv_add_edge.
Definition winv_run_branches := lwinv_run_branches ginv ginv_add_branch ginv_set_err.
Lemma ginv_set_prenode : forall g x, ginv g -> ginv (set_h_prenode x g).
Proof. intros g x I. eapply ginv_skel; [apply ss_set_h_prenode|assumption]. Qed.
Definition winv_run_statics := lwinv_run_statics ginv ginv_set_prenode.
Definition winv_wstep := lwinv_wstep ginv ginv_add_node ginv_add_edge ginv_add_branch ginv_compile ginv_set_err ginv_set_prenode.

(* ================================================================== what a successful compile checked *)
Record accepted_checks (g : gstate) (o : copt) : Prop := {
  ac_no_error : g_err g = None;
  ac_starts : g_starts g <> [];
  ac_ends : g_ends g <> [];
  ac_pending : g_pending g = [];
  ac_typed : has_untyped g = false;
  ac_mapping : existsb (fun kf => has_dup (snd kf)) (g_fm g) = false;
  ac_subgraphs : existsb (fun kn => nkind_eqb (n_kind (snd kn)) NSubBad) (g_nodes g) = false;
  ac_trigger : g_cmp g <> CGraph -> o_trigger o = None;
  ac_dag : dag_mode g o = true -> validate_dag g = true /\ (o_max_steps o <= 0)%Z
}.

Definition runner_of (g : gstate) (o : copt) (r : runner) : Prop :=
  r_nodes r = map (fun kn => (fst kn, n_kind (snd kn))) (g_nodes g) /\
  r_ctrl r = g_ctrl g /\ r_data r = g_data g /\ r_branches r = g_branches g /\
  r_dag r = dag_mode g o /\ r_prenode r = Some (g_h_prenode g ++ map fst (g_fm g)).

Lemma g_compile_accepts : forall g o g' r,
  g_compile fixed g o = (g', OCompiled r) ->
  accepted_checks g o /\ g' = set_compiled true g /\ runner_of g o r.
Proof.
  intros g o g' r. unfold g_compile. destruct (g_err g) eqn:E; [discriminate|]. simpl.
  fold (dag_mode g o).
  destruct (match g_cmp g with CGraph => false | _ => true end && is_some (o_trigger o)) eqn:T; [discriminate|].
  destruct (is_nil (g_starts g)) eqn:S; [discriminate|].
  destruct (is_nil (g_ends g)) eqn:N; [discriminate|].
  destruct (negb (is_nil (g_pending g))) eqn:P; [discriminate|].
  destruct (has_untyped g) eqn:U; [discriminate|].
  destruct (existsb (fun kf => has_dup (snd kf)) (g_fm g)) eqn:M; [discriminate|].
  destruct (existsb (fun kn => nkind_eqb (n_kind (snd kn)) NSubBad) (g_nodes g)) eqn:B; [discriminate|].
  destruct (dag_mode g o && negb (validate_dag g)) eqn:D; [discriminate|].
  destruct (dag_mode g o && Z.ltb 0 (o_max_steps o)) eqn:X; [discriminate|].
  intros H. inversion H; subst; clear H.
  split; [|split; [reflexivity|]].
  - split; try assumption.
    + destruct (g_starts g); [discriminate|congruence].
    + destruct (g_ends g); [discriminate|congruence].
    + destruct (g_pending g); [reflexivity|discriminate].
    + intros C. destruct (g_cmp g); try congruence; destruct (o_trigger o); try reflexivity; discriminate.
    + intros DM. rewrite DM in *. simpl in *. split.
      * apply negb_false_iff in D. assumption.
      * apply Z.ltb_ge in X. assumption.
  - unfold runner_of. simpl. repeat split; reflexivity.
Qed.

(* ================================================================== well-formedness *)
Definition entry (g : gstate) (e : string) : Prop :=
  In (START, e) (g_ctrl g) \/ exists ends, In (START, (ends, false)) (g_branches g) /\ In e ends.
Definition exit_ (g : gstate) (s : string) : Prop :=
  In (s, END_) (g_ctrl g) \/ exists ends, In (s, (ends, false)) (g_branches g) /\ In END_ ends.

Record well_formed (g : gstate) (o : copt) : Prop := {
  wf_structure : ginv g;
  wf_no_error : g_err g = None;
  wf_entry : exists e, entry g e;
  wf_exit : exists s, exit_ g s;
  wf_inferred : g_pending g = [] /\ forall k n, In (k, n) (g_nodes g) -> n_in n = true /\ n_out n = true;
  wf_mapping : forall k fs, In (k, fs) (g_fm g) -> has_dup fs = false;
  wf_subgraphs : forall k n, In (k, n) (g_nodes g) -> n_kind n <> NSubBad;
  wf_trigger : g_cmp g <> CGraph -> o_trigger o = None;
  wf_max_steps : dag_mode g o = true -> (o_max_steps o <= 0)%Z;
  wf_acyclic : dag_mode g o = true -> exists order, topo (ctrl_pairs g) (keys g) order
}.

Lemma existsb_false_forall : forall {A} (f : A -> bool) l, existsb f l = false -> forall x, In x l -> f x = false.
Proof.
  intros A f l H x I. destruct (f x) eqn:E; [|reflexivity].
  assert (X : existsb f l = true) by (apply existsb_exists; exists x; auto). congruence.
Qed.

Lemma is_se_false : forall k, is_se k = false -> k <> START /\ k <> END_.
Proof.
  intros k H. unfold is_se in H. apply orb_false_iff in H. destruct H as [H1 H2].
  apply String.eqb_neq in H1. apply String.eqb_neq in H2. auto.
Qed.

Theorem validate_dag_sound : forall g,
  ginv g -> validate_dag g = true -> exists order, topo (ctrl_pairs g) (keys g) order.
Proof.
  intros g I V. apply validate_sound.
  - apply (gi_nodup _ I).
  - intros C. apply (gi_unreserved _ I) in C. discriminate.
  - intros C. apply (gi_unreserved _ I) in C. discriminate.
  - exact V.
Qed.

Lemma checks_well_formed : forall g o, ginv g -> accepted_checks g o -> well_formed g o.
Proof.
  intros g o I [A1 A2 A3 A4 A5 A6 A7 A8 A9]. split; try assumption.
  - destruct (g_starts g) as [|e l] eqn:E; [congruence|]. exists e. apply (gi_starts _ I). rewrite E. left; reflexivity.
  - destruct (g_ends g) as [|e l] eqn:E; [congruence|]. exists e. apply (gi_ends _ I). rewrite E. left; reflexivity.
  - split; [assumption|]. intros k n H. unfold has_untyped in A5.
    pose proof (existsb_false_forall _ _ A5 _ H) as X. simpl in X. apply orb_false_iff in X.
    destruct X as [X1 X2]. apply negb_false_iff in X1. apply negb_false_iff in X2. auto.
  - intros k fs H. apply (existsb_false_forall _ _ A6 _ H).
  - intros k n H C. pose proof (existsb_false_forall _ _ A7 _ H) as X. simpl in X. rewrite C in X. discriminate.
  - intros D. apply A9; assumption.
  - intros D. apply validate_dag_sound; [assumption|]. apply A9; assumption.
Qed.

Lemma well_formed_compiled : forall g o, well_formed g o -> well_formed (set_compiled true g) o.
Proof.
  intros g o [W1 W2 W3 W4 W5 W6 W7 W8 W9 W10]. split; try assumption.
  eapply ginv_skel; [apply ss_set_compiled|assumption].
Qed.

Lemma g_compile_sound : forall g o g' r,
  ginv g -> g_compile fixed g o = (g', OCompiled r) -> well_formed g' o /\ runner_of g' o r.
Proof.
  intros g o g' r I H. destruct (g_compile_accepts _ _ _ _ H) as [A [E R]]. subst g'. split.
  - apply well_formed_compiled. apply checks_well_formed; assumption.
  - exact R.
Qed.

(* ------------------------------------------------------------------ the three front-ends *)
Theorem graph_compile_sound : forall st cs o g1 r,
  gstep fixed (final (gstep fixed) (g_init CGraph st) cs) (GCompile o) = (g1, OCompiled r) ->
  well_formed g1 o /\ runner_of g1 o r.
Proof.
  intros st cs o g1 r H. simpl in H. eapply g_compile_sound; [|exact H].
  apply (run_keeps (gstep fixed) ginv); [intros; apply ginv_gstep; assumption|apply ginv_init].
Qed.

Lemma c_compile_sound : forall c o c1 r,
  cinv c -> c_compile fixed c o = (c1, OCompiled r) -> well_formed (c_g c1) o /\ runner_of (c_g c1) o r.
Proof.
  intros c o c1 r I. rewrite c_compile_unfold.
  assert (P : forall pre : cstate * option ecls, cinv (fst pre) ->
    match pre with
    | (c', Some e) => (c', OErr e)
    | (c', None) => let '(g', out) := g_compile fixed (c_g c') o in (c_set_g g' c', out)
    end = (c1, OCompiled r) -> well_formed (c_g c1) o /\ runner_of (c_g c1) o r).
  { intros [c' [e|]] H; simpl in H; [discriminate|].
    destruct (g_compile fixed (c_g c') o) as [g' out] eqn:G. intros X. inversion X; subst. simpl.
    eapply g_compile_sound; eassumption. }
  apply P. simpl.
  destruct (c_err c); [assumption|]. dif; [assumption|]. dif; [assumption|].
  apply cinv_end_edges. assumption.
Qed.

Theorem chain_compile_sound : forall st cs o c1 r,
  cstep fixed (final (cstep fixed) (c_init st) cs) (CCompile o) = (c1, OCompiled r) ->
  well_formed (c_g c1) o /\ runner_of (c_g c1) o r.
Proof.
  intros st cs o c1 r H. simpl in H. eapply c_compile_sound; [|exact H].
  apply (run_keeps (cstep fixed) cinv); [intros; apply cinv_cstep; assumption|apply ginv_init].
Qed.

Lemma w_compile_sound : forall w o ord sord w1 r,
  winv w -> w_compile fixed w o ord sord = (w1, OCompiled r) -> well_formed (w_g w1) o /\ runner_of (w_g w1) o r.
Proof.
  intros w o ord sord w1 r I. unfold w_compile. destruct (g_err (w_g w)); [discriminate|].
  pose proof (winv_run_branches fixed (w_branches w) w I) as I1.
  destruct (run_branches fixed w (w_branches w)) as [wa [out|]] eqn:B; simpl in I1.
  - intros H. inversion H; subst. exfalso. eapply run_branches_not_runner; eassumption.
  - pose proof (winv_run_nodes (ord ++ map fst (w_nodes wa)) wa I1) as I2.
    destruct (run_nodes wa (ord ++ map fst (w_nodes wa))) as [wb [e|]]; simpl in I2; [discriminate|].
    pose proof (winv_run_statics fixed (sord ++ map fst (w_nodes wb)) wb I2) as I3.
    destruct (run_statics fixed wb (sord ++ map fst (w_nodes wb))) as [wc [e|]]; simpl in I3; [discriminate|].
    destruct (g_compile fixed (w_g wc) o) as [g' out] eqn:G. intros H. inversion H; subst. simpl.
    eapply g_compile_sound; eassumption.
Qed.

Theorem workflow_compile_sound : forall st cs o ord sord w1 r,
  wstep fixed (final (wstep fixed) (w_init st) cs) (WCompile o ord sord) = (w1, OCompiled r) ->
  well_formed (w_g w1) o /\ runner_of (w_g w1) o r.
Proof.
  intros st cs o ord sord w1 r H. simpl in H. eapply w_compile_sound; [|exact H].
  apply (run_keeps (wstep fixed) winv); [intros; apply winv_wstep; assumption|apply ginv_init].
Qed.

(* non-vacuity: a compiled all-predecessor graph with a branch, and its topological order *)
Definition sound_example : list gcall :=
  [ GAddNode "a" NLambda false false; GAddNode "b" NPass false false; GAddNode "c" NLambda false false;
    GAddEdge START "a"; GAddEdge "a" "b"; GAddBranch "b" ["c"; END_]; GAddEdge "c" END_ ].

Lemma sound_example_compiles :
  exists g1 r, gstep fixed (final (gstep fixed) (g_init CGraph false) sound_example) (GCompile (mkOpt (Some true) 0%Z))
               = (g1, OCompiled r) /\ r_dag r = true /\ List.length (r_nodes r) = 3%nat.
Proof. vm_compute. eexists. eexists. split; [reflexivity|]. split; reflexivity. Qed.

(* ------------------------------------------------------------------ validateDAG on builder states *)
Lemma ginv_keys_facts : forall g, ginv g ->
  NoDup (keys g) /\ ~ In START (keys g) /\ ~ In END_ (keys g).
Proof.
  intros g I. split; [apply (gi_nodup _ I)|].
  split; intros C; apply (gi_unreserved _ I) in C; discriminate.
Qed.

Lemma ginv_closed : forall g, ginv g -> closed (ctrl_pairs g) (keys g).
Proof.
  intros g I a b H. unfold ctrl_pairs in H. apply in_app_or in H. destruct H as [H|H].
  - apply (gi_ctrl _ I a b H).
  - apply in_flat_map in H. destruct H as [[s [ends sk]] [H1 H2]]. simpl in H2.
    apply in_map_iff in H2. destruct H2 as [e [H2 H3]]. injection H2 as E1 E2. subst a.
    apply (gi_branch _ I s ends sk H1).
Qed.

Theorem validate_dag_complete : forall g,
  ginv g -> (exists order, topo (ctrl_pairs g) (keys g) order) -> validate_dag g = true.
Proof.
  intros g I T. destruct (ginv_keys_facts g I) as [K1 [K2 K3]].
  apply (validate_complete (ctrl_pairs g) (keys g) K1 K2 K3); [apply ginv_closed; assumption|exact T].
Qed.

(* whatever order Go's map iteration fires the nodes in, validateDAG's verdict is the model's *)
Theorem validate_dag_any_order : forall g m,
  ginv g ->
  reach (ctrl_pairs g) (keys g) (init (ctrl_pairs g) (keys g)) m ->
  stable (keys g) m ->
  accepted m = validate_dag g.
Proof.
  intros g m I R S. destruct (ginv_keys_facts g I) as [K1 [K2 K3]].
  apply (validate_order_independent (ctrl_pairs g) (keys g) K1 K2 K3); [apply ginv_closed|idtac|idtac]; assumption.
Qed.

(* every state any call sequence can produce satisfies the invariant *)
Theorem reachable_ginv :
  (forall v st cs, ginv (final (gstep v) (g_init CGraph st) cs))
  /\ (forall v st cs, ginv (c_g (final (cstep v) (c_init st) cs)))
  /\ (forall v st cs, ginv (w_g (final (wstep v) (w_init st) cs))).
Proof.
  split; [|split]; intros v st cs.
  - apply (run_keeps (gstep v) ginv); [intros; apply ginv_gstep; assumption|apply ginv_init].
  - apply (run_keeps (cstep v) cinv); [intros; apply cinv_cstep; assumption|apply ginv_init].
  - apply (run_keeps (wstep v) winv); [intros; apply winv_wstep; assumption|apply ginv_init].
Qed.

(* non-vacuity of validate_dag_any_order: the model's own run is one of the runs it speaks about *)
Lemma any_order_example : forall g, ginv g ->
  reach (ctrl_pairs g) (keys g) (init (ctrl_pairs g) (keys g)) (dag_final (ctrl_pairs g) (keys g)) /\
  stable (keys g) (dag_final (ctrl_pairs g) (keys g)).
Proof.
  intros g I. destruct (ginv_keys_facts g I) as [K1 [K2 K3]]. split.
  - apply final_reach.
  - apply (final_stable (ctrl_pairs g) (keys g) K1 K2 K3).
Qed.
