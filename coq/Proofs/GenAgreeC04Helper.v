(* Proofs/GenAgreeC04Helper.v — property C04, translator tie (extractor c04helper, Gen/C04Helper.v):
   the table of genericHelper slots regenerated from compose/generic_helper.go is the rule
   [helper_spec] of Model/C04HelperTable.v, for every constructor and every slot: a slot filled
   from the wrong side (an output converter where the input one belongs), at the wrong type, or
   with an invoke form paired with the transform form of another check, breaks a theorem here. *)
From Eino Require Import Base.Util Model.C04HelperTable.
From Eino Require Gen.C04Helper.

Theorem gen_helper_table_agrees : Gen.C04Helper.helper_table = Model.C04HelperTable.helper_table.
Proof. reflexivity. Qed.

Theorem gen_helper_slot_is_spec : forall variant s,
  In variant variants ->
  table_lookup Gen.C04Helper.helper_table variant s = helper_spec variant s.
Proof.
  intros variant s Hin. rewrite gen_helper_table_agrees.
  repeat (destruct Hin as [<-|Hin]; [destruct s; reflexivity|]). destruct Hin.
Qed.

(* every constructor fills all twelve slots *)
Theorem gen_helper_total : forall variant s,
  In variant variants -> exists e, table_lookup Gen.C04Helper.helper_table variant s = Some e.
Proof.
  intros variant s Hin. rewrite gen_helper_slot_is_spec by exact Hin.
  repeat (destruct Hin as [<-|Hin]; [eexists; reflexivity|]). destruct Hin.
Qed.

(* a node behind an input key reads its key with the map filter and checks / converts its
   input as a map, whatever the node's own input type; its output side is the node's own *)
Example gen_helper_input_key :
  table_lookup Gen.C04Helper.helper_table "forMapInput" S_inputStreamFilter = Some (Def "defaultStreamMapFilter[T]" TMap)
  /\ table_lookup Gen.C04Helper.helper_table "forMapInput" S_outputConverter = Some (From S_outputConverter)
  /\ table_lookup Gen.C04Helper.helper_table "forSuccessorPassthrough" S_inputConverter = Some (From S_outputConverter).
Proof. repeat split; reflexivity. Qed.
