(* Proofs/InterruptNested.v — interrupts raised INSIDE nested graphs (and nodes asking for a rerun, at any
   nesting level) are transparent in the model the correspondence evaluates (owner: C05).

   [node_exec d F g] — the node bodies of graph g of the forest F: lambdas with rerun tables, nested graphs
   with their own interrupt points, nested to any depth — follows the body protocol of
   Proofs/RunLoopSusp.v relative to the uninterrupted bodies [ubody d F g] (a nested graph = its run without
   any interrupt configuration, to completion): by induction on the nesting depth, the step being the
   generic segment theorems [seg_fresh_ok] / [seg_resumed_ok]. *)
From Eino Require Import Base.Util Model.Graph Model.RunLoop Model.Interrupt
     Proofs.RunLoop Proofs.RunLoopSusp Proofs.InterruptChan Proofs.InterruptChanPregel Proofs.Interrupt
     Proofs.InterruptRerun.
From Coq Require Import Permutation.
Open Scope N_scope.

(* ---------- what the bodies emit: the completed lambda executions (node, input) of every level ---------- *)
Definition xev := (N * value)%type.
Definition live1 (en : lentry) : list xev :=
  match en with LExec k v false => [(k, v)] | _ => [] end.
Definition live (l : list lentry) : list xev := flat_map live1 l.
Definition trE (e : env) : list xev := live (e_log e).
(* the environments of calls that carry no state modifier *)
Definition EOKe (e : env) : Prop := e_mod e = false.

Lemma live_app : forall a b, live (a ++ b) = live a ++ live b.
Proof. intros; unfold live; apply flat_map_app. Qed.

Lemma live_pres : forall l : list N, live (map LPre l) = [].
Proof. induction l; simpl; auto. Qed.

(* ---------- the state layer of the model ---------- *)
Definition rerunN (g : gspec) (k : N) : Prop := gs_state g = true /\ memN k (gs_st g) = true.
Definition GOKN (g : gspec) (s : gst) : Prop := gs_state g = true -> has_state s.
(* every node with a rerun table has the stamping / rebuilding pre-handler (the property's proviso) *)
Definition rerun_ok' (g : gspec) : Prop :=
  forall k l, nlist_get k (gs_rerun g) = Some l -> gs_state g = true /\ memN k (gs_st g) = true.

Lemma state_layer_model : forall g, rerun_ok' g -> state_layer (SCP := ncp) VNil (pre_fn g) (rerunN g) (GOKN g).
Proof.
  intros g Hok. constructor.
  - intros k v gs Hg Hst. apply pre_fn_has_state. auto.
  - intros ts gs Hg Hn Hf t' Hin [Hst Hm].
    assert (Hrok : rerun_ok g) by (split; [exact Hst|]; intros k l Hl; destruct (Hok k l Hl); auto).
    apply (pre_fn_rebuild g Hrok); auto.
Qed.

Lemma GOKN_gs0 : forall g, GOKN g (gs0 g).
Proof. intros g Hst. unfold gs0. rewrite Hst. eexists; reflexivity. Qed.

(* ---------- the channel layer: any-predecessor mode ---------- *)
Lemma chan_layer_pregel : forall gr, g_mode gr = Pregel -> chan_layer (ifold gr) (igetr gr) (fun cs _ => pinv cs).
Proof.
  intros gr Hm. constructor.
  - auto.
  - intros; eapply ifold_pinv; eauto.
  - intros; eapply igetr_pinv; eauto.
  - intros; apply ifold_nil.
  - intros cs cs' r _ Hg. eapply igetr_idem; eauto. unfold chan_inv. rewrite Hm. exact I.
  - intros; eapply igetr_nodup; eauto.
  - intros; apply ifold_app_pregel; auto.
  - intros; eapply ifold_prefix_pregel; eauto.
  - intros; eapply ifold_perm_pregel; eauto.
Qed.

(* ---------- the uninterrupted bodies ---------- *)
Definition ubT := N -> value -> option (value * list xev).
Definition bodyOf (ub : ubT) (k : N) (v : value) : option value := option_map fst (ub k v).
Definition traceOf (ub : ubT) (k : N) (v : value) : list xev := match ub k v with Some (_, L) => L | None => [] end.

(* the run of a nested graph without any interrupt configuration, to completion: output and what was emitted *)
Definition usub (ub : ubT) (sub : gspec) (v : value) : option (value * list xev) :=
  match init_chans value (gs_graph sub) with
  | Ok cs0 =>
    match start VNil (ifold (gs_graph sub)) (igetr (gs_graph sub)) (pre_fn sub)
                (execU (SCP := ncp) (SINFO := ninfo) (bodyOf ub)) [] [] (seg_fuel (gs_graph sub)) cs0 (gs0 sub) v tt with
    | (ODone r, lU, _) => Some (r, TU (traceOf ub) lU)
    | _ => None
    end
  | _ => None
  end.

Fixpoint ubody (d : nat) (F : list gspec) (g : gspec) (k : N) (v : value) {struct d} : option (value * list xev) :=
  match find_node (gs_graph g) k, key_input g k None v with
  | Some n, Ok v' =>
    match n_kind n with
    | KSub j =>
      match d with
      | O => None
      | S d' =>
        match nth_error F j with
        | None => None
        | Some sub =>
          match usub (ubody d' F sub) sub v' with
          | Some (r, L) => Some (VMap [(k, r)], L)
          | None => None
          end
        end
      end
    | _ => Some (lam_body g k v', [(k, v')])
    end
  | _, _ => None
  end.

Section Nested.
  Variable F : list gspec.
  (* the joint invariant of the channel layer of every graph of the forest *)
  Variable chanJ : gspec -> chans value -> list N -> Prop.

  Definition good_graph (g : gspec) : Prop :=
    g_eager (gs_graph g) = false /\ rerun_ok' g /\
    chan_layer (ifold (gs_graph g)) (igetr (gs_graph g)) (chanJ g) /\
    (forall cs0, init_chans value (gs_graph g) = Ok cs0 -> chanJ g cs0 [kStart]).

  Hypothesis H_F : Forall good_graph F.

  (* [c] is a residual of the nested graph node k of g, started on v *)
  Fixpoint SuspN (d : nat) (g : gspec) (k : N) (v : value) (c : ncp) (L : list xev) {struct d} : Prop :=
    match d with
    | O => False
    | S d' =>
      exists n j sub v' cs0 vU lU c0 E,
        find_node (gs_graph g) k = Some n /\ n_kind n = KSub j /\ nth_error F j = Some sub /\
        key_input g k None v = Ok v' /\ c = NCP c0 /\ init_chans value (gs_graph sub) = Ok cs0 /\
        start VNil (ifold (gs_graph sub)) (igetr (gs_graph sub)) (pre_fn sub)
              (execU (SCP := ncp) (SINFO := ninfo) (bodyOf (ubody d' F sub))) [] [] (seg_fuel (gs_graph sub))
              cs0 (gs0 sub) v' tt = (ODone vU, lU, tt) /\
        GSusp (SINFO := ninfo) VNil (ifold (gs_graph sub)) (igetr (gs_graph sub)) (pre_fn sub)
              (bodyOf (ubody d' F sub)) (rerunN sub) (traceOf (ubody d' F sub)) (SuspN d' sub) (chanJ sub) (GOKN sub)
              (seg_fuel (gs_graph sub)) vU lU c0 L E
    end.

  (* ---------- lambdas ---------- *)
  Lemma lambda_protocol : forall g k v e r e', rerun_ok' g -> EOKe e -> lambda_exec g k v e = (r, e') ->
    EOKe e' /\ exists L, trE e' = trE e ++ L /\
      match r with
      | TDone o' => o' = lam_body g k v /\ L = [(k, v)]
      | TRerun => rerunN g k /\ L = []
      | _ => False
      end.
  Proof.
    intros g k v e r e' Hok He H. unfold lambda_exec in H.
    destruct (nlist_get k (gs_rerun g)) as [l|] eqn:Hl.
    - destruct (memN _ l) eqn:Hm; inversion H; subst; clear H; (split; [exact He|]); unfold trE; cbn [e_log];
        rewrite live_app; eexists; (split; [reflexivity|]); simpl; auto.
      split; auto. destruct (Hok k l Hl). split; auto.
    - inversion H; subst; clear H. split; [exact He|]. unfold trE; cbn [e_log]. rewrite live_app.
      eexists; split; [reflexivity|]. simpl; auto.
  Qed.

  Lemma log_pres_tr : forall sub l e, trE (log_pres sub l e) = trE e /\ (EOKe e -> EOKe (log_pres sub l e)).
  Proof.
    intros sub l e. unfold trE, log_pres, EOKe. cbn [e_log e_mod]. rewrite live_app, live_pres, app_nil_r. auto.
  Qed.

  (* ---------- the protocol, by induction on the nesting depth ---------- *)
  Lemma node_protocol : forall d g, In g F ->
    body_protocol (bodyOf (ubody d F g)) (rerunN g) (node_exec d F g) trE (traceOf (ubody d F g)) EOKe (SuspN d g).
  Proof.
    induction d as [|d' IH]; intros g Hg.
    - (* depth 0: every node that completes is a lambda *)
      rewrite Forall_forall in H_F. destruct (H_F g Hg) as (_ & Hrok & _).
      constructor.
      + intros k v o e r e' He Hb Hx. unfold bodyOf, traceOf in *. cbn [ubody node_exec] in *.
        destruct (find_node (gs_graph g) k) as [n|]; [|discriminate].
        destruct (key_input g k None v) as [v'| |]; try discriminate.
        destruct (n_kind n) eqn:Hk; try discriminate; simpl in Hb; inversion Hb; subst o;
          destruct (lambda_protocol g k v' e r e' Hrok He Hx) as (He' & L & Htr & Hm);
          (split; [exact He'|]); exists L; (split; [exact Htr|]);
          destruct r; try contradiction; destruct Hm as [? ->]; auto.
      + intros k v o c L0 z e r e' He Hb Hs. destruct Hs.
    - rewrite Forall_forall in H_F. destruct (H_F g Hg) as (_ & Hrok & _).
      constructor.
      + intros k v o e r e' He Hb Hx. unfold bodyOf, traceOf in *. cbn [ubody node_exec] in *.
        destruct (find_node (gs_graph g) k) as [n|] eqn:Hfn; [|discriminate].
        destruct (key_input g k None v) as [v'| |] eqn:Hki; try discriminate.
        destruct (n_kind n) as [| |j] eqn:Hk.
        * simpl in Hb; inversion Hb; subst o.
          destruct (lambda_protocol g k v' e r e' Hrok He Hx) as (He' & L & Htr & Hm).
          split; [exact He'|]. exists L. split; [exact Htr|].
          destruct r; try contradiction; destruct Hm as [? ->]; auto.
        * simpl in Hb; inversion Hb; subst o.
          destruct (lambda_protocol g k v' e r e' Hrok He Hx) as (He' & L & Htr & Hm).
          split; [exact He'|]. exists L. split; [exact Htr|].
          destruct r; try contradiction; destruct Hm as [? ->]; auto.
        * (* a nested graph, started fresh *)
          destruct (nth_error F j) as [sub|] eqn:Hnth; [|discriminate].
          assert (Hsub : In sub F) by (eapply nth_error_In; eauto).
          destruct (H_F sub Hsub) as (Heag & Hrok_s & Hcl & Hj0).
          unfold usub in Hb.
          destruct (init_chans value (gs_graph sub)) as [cs0| |] eqn:Hic; try discriminate.
          destruct (start VNil (ifold (gs_graph sub)) (igetr (gs_graph sub)) (pre_fn sub)
                      (execU (bodyOf (ubody d' F sub))) [] [] (seg_fuel (gs_graph sub)) cs0 (gs0 sub) v' tt)
            as [[oU lU] eU] eqn:HU.
          destruct oU as [vU| | |]; try discriminate. destruct eU.
          simpl in Hb. inversion Hb; subst o. clear Hb.
          rewrite (seg_fresh_batch (node_exec d' F sub) (N.of_nat j) sub cs0 v' e Heag Hic) in Hx.
          pose proof (seg_fresh_ok VNil (ifold (gs_graph sub)) (igetr (gs_graph sub)) (pre_fn sub)
                        (bodyOf (ubody d' F sub)) (rerunN sub) (node_exec d' F sub) (gs_before sub) (gs_after sub)
                        trE (traceOf (ubody d' F sub)) EOKe (SuspN d' sub) (IH sub Hsub) (chanJ sub) Hcl
                        (GOKN sub) (state_layer_model sub Hrok_s) (seg_fuel (gs_graph sub)) vU lU cs0 (gs0 sub) v'
                        (Hj0 cs0 eq_refl) (GOKN_gs0 sub) (seg_fuel (gs_graph sub)) HU (le_n _) e He) as Hseg.
          destruct (start VNil (ifold (gs_graph sub)) (igetr (gs_graph sub)) (pre_fn sub) (node_exec d' F sub)
                      (gs_before sub) (gs_after sub) (seg_fuel (gs_graph sub)) cs0 (gs0 sub) v' e) as [[o1 l1] e1].
          unfold seg_res in Hseg. destruct Hseg as (He1 & Lnew & Htr & Hcase).
          destruct (log_pres_tr sub l1 e1) as [Htr' He''].
          inversion Hx; subst r e'. clear Hx.
          split; [auto|]. exists Lnew. split; [rewrite Htr'; exact Htr|].
          destruct Hcase as [(-> & _ & Hpt)|(i & c & -> & Hgs)].
          -- split; [reflexivity|]. simpl in Hpt. unfold usub. rewrite Hic, HU. exact Hpt.
          -- simpl in Hgs. cbn [SuspN]. exists n, j, sub, v', cs0, vU, lU, c. eexists.
             repeat (split; [first [eassumption|reflexivity]|]). exact Hgs.
      + (* a nested graph, continued from its residual *)
        intros k v o c L0 z e r e' He Hb Hs Hx. cbn [SuspN] in Hs.
        destruct Hs as (n & j & sub & v' & cs0 & vU & lU & c0 & E & Hfn & Hk & Hnth & Hki & -> & Hic & HU & Hgs).
        assert (Hsub : In sub F) by (eapply nth_error_In; eauto).
        destruct (H_F sub Hsub) as (Heag & Hrok_s & Hcl & Hj0).
        unfold bodyOf, traceOf in Hb |- *. cbn [ubody node_exec] in Hb, Hx |- *.
        rewrite Hfn, Hki, Hk, Hnth in Hb. unfold usub in Hb. rewrite Hic, HU in Hb. simpl in Hb. inversion Hb; subst o. clear Hb.
        rewrite Hfn, Hki, Hk, Hnth. unfold usub. rewrite Hic, HU.
        rewrite Hfn in Hx.
        assert (Hkz : exists z', key_input g k (Some (NCP c0)) z = Ok z').
        { unfold key_input. destruct (nlist_get k (gs_inkey g)); [|eauto].
          destruct (match z with VMap kvs => nlist_get n0 kvs | _ => None end); eauto. }
        destruct Hkz as (z' & Hkz). rewrite Hkz, Hk, Hnth in Hx.
        assert (Hsm : sm_of e = (fun s : gst => s)) by (unfold sm_of; rewrite He; reflexivity).
        rewrite Hsm in Hx.
        rewrite (seg_resumed_batch (node_exec d' F sub) (N.of_nat j) sub (fun s => s) c0 e Heag) in Hx.
        pose proof (seg_resumed_ok VNil (ifold (gs_graph sub)) (igetr (gs_graph sub)) (pre_fn sub)
                      (bodyOf (ubody d' F sub)) (rerunN sub) (node_exec d' F sub) (gs_before sub) (gs_after sub)
                      trE (traceOf (ubody d' F sub)) EOKe (SuspN d' sub) (IH sub Hsub) (chanJ sub) Hcl
                      (GOKN sub) (state_layer_model sub Hrok_s) (seg_fuel (gs_graph sub)) vU lU c0 L0 E e Hgs He) as Hseg.
        destruct (resume VNil (ifold (gs_graph sub)) (igetr (gs_graph sub)) (pre_fn sub) (node_exec d' F sub)
                    (gs_before sub) (gs_after sub) (seg_fuel (gs_graph sub)) (fun s => s) c0 e) as [[o1 l1] e1].
        unfold seg_res in Hseg. destruct Hseg as (He1 & Lnew & Htr & Hcase).
        destruct (log_pres_tr sub l1 e1) as [Htr' He''].
        inversion Hx; subst r e'. clear Hx.
        split; [auto|]. exists Lnew. split; [rewrite Htr'; exact Htr|].
        destruct Hcase as [(-> & _ & Hpt)|(i & c & -> & Hgs2)].
        * split; [reflexivity|]. exact Hpt.
        * cbn [SuspN]. exists n, j, sub, v', cs0, vU, lU, c. eexists.
          repeat (split; [first [eassumption|reflexivity]|]). exact Hgs2.
  Qed.
End Nested.
