(* Proofs/TypesFlowX.v — the run-time checks of a compiled graph are exact, connection by
   connection and whatever the execution discipline: the converters installed on a connection
   (handlerOnEdges[s][t]) stop a value of the upstream node's static type exactly when it is
   not assignable to the downstream node's input type; the converter of a branch
   (handlerPreBranch) stops it exactly when it is not assignable to the condition's type.
   A statically safe connection (Must) carries no converter and every value passes. *)
From Eino Require Import Base.Util Model.Types Model.TypeBuilder Proofs.TypesLattice Proofs.TypesBuilder Proofs.TypesRun Proofs.TypesInv2 Proofs.TypesMay Proofs.TypesMain.
Arguments check_assignable : simpl never.

Section X.
  Variable u : univ.
  Notation asrt := (assert_type u).

  Lemma conn_check_exact_inv : forall st s t d,
    inv u st -> hedge_ok st -> g_compiled st = true ->
    In (s, t) (conns st) -> done_ok u st (s, d) ->
    (conv_all asrt d (hedge_of st s t) = true <->
     exists b, in_ty st t = Some b /\ dyn_assignable u d b = true).
  Proof.
    intros st s t d I HO C Hc D. destruct (compiled_all_validated u st I C _ Hc) as [CO _]. split.
    - intro CV. destruct (transfer_ok u st s t d CO D CV) as [b [Hb Ab]]. simpl in Hb, Ab.
      exists b. split; [exact Hb|]. rewrite <- assert_type_assignable. exact Ab.
    - intros [b [Hb Ab]]. unfold conv_all. apply forallb_forall. intros c Hin.
      apply (hedge_of_In st s t c) in Hin. pose proof (HO _ _ _ Hin) as E. rewrite Hb in E. inversion E; subst c.
      rewrite assert_type_assignable. exact Ab.
  Qed.

  Lemma branch_check_exact_inv : forall st s b d,
    inv u st -> conv_ok st -> In (s, b) (g_branches st) -> done_ok u st (s, d) ->
    (conv_all asrt d (b_conv b) = true <-> dyn_assignable u d (b_ty b) = true).
  Proof.
    intros st s b d I CK B [a [Oa Ha]]. simpl in Oa, Ha. rewrite <- assert_type_assignable. split.
    - intro CV. destruct (inv_branches _ _ I s b B) as [_ [a' [Oa' [Hc Hm]]]]. rewrite Oa in Oa'. inversion Oa'; subst a'.
      destruct (check_assignable u (Some a) (Some (b_ty b))) eqn:E.
      + exfalso; apply Hc; reflexivity.
      + eapply must_sound; eauto.
      + specialize (Hm eq_refl). unfold conv_all in CV. rewrite forallb_forall in CV. apply CV; exact Hm.
    - intro A. unfold conv_all. apply forallb_forall. intros c Hin. rewrite (CK s b B c Hin). exact A.
  Qed.
End X.

Theorem conn_check_exact_main : forall u orcs i o s0 ops st oks s t d,
  run_ops u orcs 0 (init_graph i o s0) ops = (st, oks) -> g_compiled st = true ->
  In (s, t) (g_data st ++ branch_pairs st) -> done_ok u st (s, d) ->
  (conv_all (assert_type u) d (hedge_of st s t) = true <->
   exists b, in_ty st t = Some b /\ dyn_assignable u d b = true).
Proof.
  intros u orcs i o s0 ops st oks s t d R C Hc D.
  destruct (reach_inv2 u orcs i o s0 ops st oks R) as [HO _].
  eapply conn_check_exact_inv; eauto. eapply reach_inv; eauto.
Qed.

Theorem branch_check_exact_main : forall u orcs i o s0 ops st oks s b d,
  run_ops u orcs 0 (init_graph i o s0) ops = (st, oks) ->
  In (s, b) (g_branches st) -> done_ok u st (s, d) ->
  (conv_all (assert_type u) d (b_conv b) = true <-> dyn_assignable u d (b_ty b) = true).
Proof.
  intros u orcs i o s0 ops st oks s b d R B D.
  destruct (reach_inv2 u orcs i o s0 ops st oks R) as [_ CK].
  eapply branch_check_exact_inv; eauto. eapply reach_inv; eauto.
Qed.
