(* Proofs/StateLockOwn.v — C11: state is per run and per stateful graph; a nested graph
   without state shares the object of its parent; an object made by the generator starts
   from the generated value; an object made at resume starts from the caller's modifier
   applied to the value the old object had at the interrupt, and the old object is never
   touched again. For every interleaving of Model/StateLockLTS.v. *)
From Eino Require Import Base.Util Model.StateLock Model.StateLockLTS Proofs.StateLockLTS Proofs.StateLockVal.
From Coq Require Import Lia.

Section Own.
  Variables (S X : Type).
  Variable gen : nat -> S.
  Variable hfun : kind -> N -> X -> S -> X * S.
  Variable lout : N -> X -> X.
  Variable mrg : list X -> X.
  Variable f : forest.
  Variable x0 : X.

  Notation config := (config S X).
  Notation inst := (inst S X).
  Notation pstep := (pstep S X gen hfun lout mrg f x0).
  Notation preach := (preach S X gen hfun lout mrg f x0).
  Notation new_inst := (new_inst S X gen).

  Ltac inv H := inversion H; subst; clear H.

  (* ---------------------------------------------------------------- skeleton *)

  Definition isk := (N * nat * option nat * option nat)%type.    (* run, graph, parent, object *)
  Definition static_of (J : inst) : isk := (i_run J, i_graph J, i_parent J, i_obj J).
  Definition iskel (c : config) : list isk := map static_of (c_insts c).
  Definition oskel (c : config) : list nat := map (@o_inst S) (c_objs c).

  Definition gstate (g : nat) : bool :=
    match nth_error f g with Some G => g_state G | None => false end.

  Definition own_sk (I : list isk) (O : list nat) : Prop :=
    (forall i r g pi o, nth_error I i = Some (r, g, Some pi, o) ->
        (pi < i)%nat /\ exists g' p' o', nth_error I pi = Some (r, g', p', o')) /\
    (forall i r g p o, nth_error I i = Some (r, g, p, o) -> gstate g = true ->
        exists ob, o = Some ob /\ nth_error O ob = Some i) /\
    (forall i r g p o, nth_error I i = Some (r, g, p, o) -> gstate g = false ->
        match p with
        | None => o = None
        | Some pi => exists r' g' p', nth_error I pi = Some (r', g', p', o)
        end) /\
    (forall i r g p ob, nth_error I i = Some (r, g, p, Some ob) ->
        exists k gk pk, nth_error O ob = Some k /\ nth_error I k = Some (r, gk, pk, Some ob) /\ gstate gk = true) /\
    (forall ob k, nth_error O ob = Some k ->
        exists r gk pk ok, nth_error I k = Some (r, gk, pk, ok) /\ gstate gk = true).

  Lemma own_sk_nil : own_sk [] [].
  Proof.
    repeat split; intros; try (destruct i; discriminate); destruct ob; discriminate.
  Qed.

  Lemma nth_app_old : forall A (l : list A) a i x, nth_error l i = Some x -> nth_error (l ++ [a]) i = Some x.
  Proof. intros. rewrite nth_error_app1; auto. eapply nth_some_lt; eauto. Qed.

  (* a new instance of a graph without state *)
  Lemma own_sk_new_stateless : forall I O r g par inh,
    own_sk I O -> gstate g = false ->
    match par with
    | None => inh = None
    | Some pi => exists g' p', nth_error I pi = Some (r, g', p', inh)
    end ->
    own_sk (I ++ [(r, g, par, inh)]) O.
  Proof.
    intros I O r g par inh (H1 & H2 & H3 & H4 & H5) Hg Hpar.
    assert (Hparlt : forall pi, par = Some pi -> (pi < List.length I)%nat).
    { intros pi ->. destruct Hpar as (? & ? & Hp). eapply nth_some_lt; eauto. }
    split; [|split; [|split; [|split]]].
    - intros i r0 g0 pi o Hi. apply nth_app_cases in Hi. destruct Hi as [[Hi Hlt]|[-> Heq]].
      + destruct (H1 _ _ _ _ _ Hi) as (? & g' & p' & o' & Hp). split; auto.
        exists g', p', o'. apply nth_app_old; auto.
      + inv Heq. destruct Hpar as (g' & p' & Hp). split; [eapply nth_some_lt; eauto|].
        exists g', p', inh. apply nth_app_old; auto.
    - intros i r0 g0 p o Hi Hs. apply nth_app_cases in Hi. destruct Hi as [[Hi Hlt]|[-> Heq]].
      + eapply H2; eauto.
      + inv Heq. congruence.
    - intros i r0 g0 p o Hi Hs. apply nth_app_cases in Hi. destruct Hi as [[Hi Hlt]|[-> Heq]].
      + specialize (H3 _ _ _ _ _ Hi Hs). destruct p; auto.
        destruct H3 as (r' & g' & p' & Hp). exists r', g', p'. apply nth_app_old; auto.
      + inv Heq. destruct par; auto. destruct Hpar as (g' & p' & Hp). exists r, g', p'. apply nth_app_old; auto.
    - intros i r0 g0 p ob Hi. apply nth_app_cases in Hi. destruct Hi as [[Hi Hlt]|[-> Heq]].
      + destruct (H4 _ _ _ _ _ Hi) as (k & gk & pk & Ho & Hk & Hs). exists k, gk, pk. repeat split; auto.
        apply nth_app_old; auto.
      + inv Heq. destruct par as [pi|]; [|discriminate].
        destruct Hpar as (g' & p' & Hp).
        destruct (H4 _ _ _ _ _ Hp) as (k & gk & pk & Ho & Hk & Hs). exists k, gk, pk. repeat split; auto.
        apply nth_app_old; auto.
    - intros ob k Ho. destruct (H5 _ _ Ho) as (r0 & gk & pk & ok & Hk & Hs). exists r0, gk, pk, ok.
      split; auto. apply nth_app_old; auto.
  Qed.

  (* a new instance of a graph that declares state: a new object owned by it *)
  Lemma own_sk_new_stateful : forall I O r g par,
    own_sk I O -> gstate g = true ->
    match par with
    | None => True
    | Some pi => exists g' p' o', nth_error I pi = Some (r, g', p', o')
    end ->
    (forall i r g p ob, nth_error I i = Some (r, g, p, Some ob) -> (ob < List.length O)%nat) ->
    own_sk (I ++ [(r, g, par, Some (List.length O))]) (O ++ [List.length I]).
  Proof.
    intros I O r g par (H1 & H2 & H3 & H4 & H5) Hg Hpar Hbound.
    split; [|split; [|split; [|split]]].
    - intros i r0 g0 pi o Hi. apply nth_app_cases in Hi. destruct Hi as [[Hi Hlt]|[-> Heq]].
      + destruct (H1 _ _ _ _ _ Hi) as (? & g' & p' & o' & Hp). split; auto.
        exists g', p', o'. apply nth_app_old; auto.
      + inv Heq. destruct Hpar as (g' & p' & o' & Hp). split; [eapply nth_some_lt; eauto|].
        exists g', p', o'. apply nth_app_old; auto.
    - intros i r0 g0 p o Hi Hs. apply nth_app_cases in Hi. destruct Hi as [[Hi Hlt]|[-> Heq]].
      + destruct (H2 _ _ _ _ _ Hi Hs) as (ob & -> & Ho). exists ob. split; auto. apply nth_app_old; auto.
      + inv Heq. exists (List.length O). split; auto. apply nth_app_new.
    - intros i r0 g0 p o Hi Hs. apply nth_app_cases in Hi. destruct Hi as [[Hi Hlt]|[-> Heq]].
      + specialize (H3 _ _ _ _ _ Hi Hs). destruct p; auto.
        destruct H3 as (r' & g' & p' & Hp). exists r', g', p'. apply nth_app_old; auto.
      + inv Heq. congruence.
    - intros i r0 g0 p ob Hi. apply nth_app_cases in Hi. destruct Hi as [[Hi Hlt]|[-> Heq]].
      + destruct (H4 _ _ _ _ _ Hi) as (k & gk & pk & Ho & Hk & Hs). exists k, gk, pk. repeat split; auto;
        apply nth_app_old; auto.
      + inv Heq. exists (List.length I), g, par. repeat split; auto; apply nth_app_new.
    - intros ob k Ho. apply nth_app_cases in Ho. destruct Ho as [[Ho Hlt]|[-> ->]].
      + destruct (H5 _ _ Ho) as (r0 & gk & pk & ok & Hk & Hs). exists r0, gk, pk, ok.
        split; auto. apply nth_app_old; auto.
      + exists r, g, par, (Some (List.length O)). split; auto. apply nth_app_new.
  Qed.

  Definition remap_sk (o o' : nat) (s : isk) : isk :=
    let '(r, g, p, ob) := s in
    (r, g, p, match ob with Some o1 => if Nat.eqb o1 o then Some o' else Some o1 | None => None end).

  Lemma remap_sk_static : forall o o' (J : inst), static_of (remap S X o o' J) = remap_sk o o' (static_of J).
  Proof.
    intros. unfold remap, static_of, remap_sk. destruct (i_obj J) as [o1|] eqn:E; simpl.
    - destruct (Nat.eqb o1 o); simpl; rewrite ?E; reflexivity.
    - rewrite E. reflexivity.
  Qed.

  Definition remap_o (o o' : nat) (ob : option nat) : option nat :=
    match ob with Some o1 => if Nat.eqb o1 o then Some o' else Some o1 | None => None end.

  Lemma nth_map_remap : forall I o o' i r g p ob,
    nth_error (map (remap_sk o o') I) i = Some (r, g, p, ob) ->
    exists ob0, nth_error I i = Some (r, g, p, ob0) /\ ob = remap_o o o' ob0.
  Proof.
    intros. rewrite nth_error_map in H. destruct (nth_error I i) as [[[[r0 g0] p0] ob0]|]; [|discriminate].
    simpl in H. inv H. exists ob0. split; reflexivity.
  Qed.

  Lemma nth_map_remap' : forall I o o' i r g p ob0,
    nth_error I i = Some (r, g, p, ob0) ->
    nth_error (map (remap_sk o o') I) i = Some (r, g, p, remap_o o o' ob0).
  Proof. intros. apply (map_nth_error (remap_sk o o')) in H. exact H. Qed.

  (* resume of object o *)
  Lemma own_sk_resume : forall I O o k0,
    own_sk I O -> nth_error O o = Some k0 ->
    (forall i r g p ob, nth_error I i = Some (r, g, p, Some ob) -> (ob < List.length O)%nat) ->
    own_sk (map (remap_sk o (List.length O)) I) (O ++ [k0]).
  Proof.
    intros I O o k0 (H1 & H2 & H3 & H4 & H5) Hk0 Hbound.
    assert (Holt : (o < List.length O)%nat) by (eapply nth_some_lt; eauto).
    split; [|split; [|split; [|split]]].
    - intros i r g pi ob Hi. apply nth_map_remap in Hi. destruct Hi as (ob0 & Hi & ->).
      destruct (H1 _ _ _ _ _ Hi) as (? & g' & p' & o' & Hp). split; auto.
      exists g', p', (remap_o o (List.length O) o'). apply nth_map_remap'; auto.
    - intros i r g p ob Hi Hs. apply nth_map_remap in Hi. destruct Hi as (ob0 & Hi & ->).
      destruct (H2 _ _ _ _ _ Hi Hs) as (ob1 & -> & Ho). simpl.
      destruct (Nat.eqb_spec ob1 o).
      + subst ob1. exists (List.length O). split; auto. rewrite Hk0 in Ho. inv Ho. apply nth_app_new.
      + exists ob1. split; auto. apply nth_app_old; auto.
    - intros i r g p ob Hi Hs. apply nth_map_remap in Hi. destruct Hi as (ob0 & Hi & ->).
      specialize (H3 _ _ _ _ _ Hi Hs). destruct p.
      + destruct H3 as (r' & g' & p' & Hp). exists r', g', p'. apply nth_map_remap'; auto.
      + subst. reflexivity.
    - intros i r g p ob Hi. apply nth_map_remap in Hi. destruct Hi as (ob0 & Hi & Hob).
      destruct ob0 as [ob0|]; [|discriminate]. simpl in Hob.
      destruct (H4 _ _ _ _ _ Hi) as (k & gk & pk & Ho & Hk & Hs).
      destruct (Nat.eqb_spec ob0 o).
      + subst ob0. inv Hob. rewrite Hk0 in Ho. inv Ho. exists k, gk, pk. repeat split; auto.
        * apply nth_app_new.
        * apply nth_map_remap' with (o := o) (o' := List.length O) in Hk. simpl in Hk.
          rewrite Nat.eqb_refl in Hk. exact Hk.
      + inv Hob. exists k, gk, pk. repeat split; auto.
        * apply nth_app_old; auto.
        * apply nth_map_remap' with (o := o) (o' := List.length O) in Hk. simpl in Hk.
          destruct (Nat.eqb_spec ob0 o); [congruence|]. exact Hk.
    - intros ob k Ho. apply nth_app_cases in Ho. destruct Ho as [[Ho Hlt]|[-> ->]].
      + destruct (H5 _ _ Ho) as (r0 & gk & pk & ok & Hk & Hs). exists r0, gk, pk, (remap_o o (List.length O) ok).
        split; auto. apply nth_map_remap'; auto.
      + destruct (H5 _ _ Hk0) as (r0 & gk & pk & ok & Hk & Hs). exists r0, gk, pk, (remap_o o (List.length O) ok).
        split; auto. apply nth_map_remap'; auto.
  Qed.

  (* ---------------------------------------------------------------- the skeleton of a step *)

  Definition own_inv (c : config) : Prop := own_sk (iskel c) (oskel c).

  Lemma map_upd_same : forall A B (g : A -> B) (l : list A) i a a',
    nth_error l i = Some a -> g a' = g a -> map g (upd l i a') = map g l.
  Proof.
    induction l; destruct i; simpl; intros; try discriminate; auto.
    - inv H. rewrite H0. reflexivity.
    - f_equal. eapply IHl; eauto.
  Qed.

  Lemma iskel_moved : forall (c : config) i J n s q,
    nth_error (c_insts c) i = Some J ->
    map static_of (upd (c_insts c) i (set_doneq S X (set_ns S X J n s) q)) = iskel c.
  Proof. intros. unfold iskel. eapply map_upd_same; eauto. Qed.

  Lemma iskel_moved' : forall (c : config) i J n s,
    nth_error (c_insts c) i = Some J ->
    map static_of (upd (c_insts c) i (set_ns S X J n s)) = iskel c.
  Proof. intros. exact (iskel_moved c i J n s (i_doneq J) H). Qed.

  Lemma oskel_upd : forall (c : config) o r r',
    nth_error (c_objs c) o = Some r -> o_inst r' = o_inst r ->
    map (@o_inst S) (upd (c_objs c) o r') = oskel c.
  Proof. intros. unfold oskel. eapply map_upd_same; eauto. Qed.

  Lemma iskel_new_inst : forall c r g G par inh x,
    iskel (new_inst c r g G par inh x) =
    iskel c ++ [(r, g, par, if g_state G then Some (List.length (c_objs c)) else inh)].
  Proof.
    intros. unfold iskel, StateLockLTS.new_inst. destruct (g_state G); simpl; rewrite map_app; reflexivity.
  Qed.

  Lemma oskel_new_inst : forall c r g G par inh x,
    oskel (new_inst c r g G par inh x) =
    oskel c ++ (if g_state G then [List.length (c_insts c)] else []).
  Proof.
    intros. unfold oskel, StateLockLTS.new_inst. destruct (g_state G); simpl.
    - rewrite map_app. reflexivity.
    - rewrite app_nil_r. reflexivity.
  Qed.

  Lemma iskel_bound : forall c, obj_bound S X c ->
    forall i r g p ob, nth_error (iskel c) i = Some (r, g, p, Some ob) -> (ob < List.length (oskel c))%nat.
  Proof.
    intros c Hb i r g p ob H. unfold iskel in H. rewrite nth_error_map in H.
    destruct (nth_error (c_insts c) i) as [J|] eqn:E; [|discriminate]. simpl in H. inv H.
    unfold oskel. rewrite map_length. eapply Hb; eauto.
  Qed.

  Lemma iskel_nth : forall (c : config) i J, nth_error (c_insts c) i = Some J ->
    nth_error (iskel c) i = Some (static_of J).
  Proof. intros. unfold iskel. apply map_nth_error. auto. Qed.

  Lemma own_new_inst : forall c r g G par inh x,
    obj_bound S X c -> own_inv c -> nth_error f g = Some G ->
    match par with
    | None => inh = None
    | Some pi => exists g' p', nth_error (iskel c) pi = Some (r, g', p', inh)
    end ->
    own_inv (new_inst c r g G par inh x).
  Proof.
    intros c r g G par inh x Hb Ho HG Hpar. unfold own_inv.
    rewrite iskel_new_inst, oskel_new_inst.
    assert (Hgs : gstate g = g_state G) by (unfold gstate; rewrite HG; auto).
    destruct (g_state G).
    - replace (List.length (c_objs c)) with (List.length (oskel c)) by (unfold oskel; apply map_length).
      replace (List.length (c_insts c)) with (List.length (iskel c)) by (unfold iskel; apply map_length).
      apply own_sk_new_stateful; auto.
      + destruct par; auto. destruct Hpar as (g' & p' & Hp). eauto.
      + apply iskel_bound; auto.
    - rewrite app_nil_r. apply own_sk_new_stateless; auto.
  Qed.

  Lemma own_step : forall c ch c', obj_bound S X c -> own_inv c -> pstep c ch = Some c' -> own_inv c'.
  Proof.
    intros c ch c' Hb IH H. destruct ch as [r|i n|i n|i n|i n|i n|o m].
    - apply pstep_start_inv in H. destruct H as (G & HG & ->). apply own_new_inst; auto.
    - apply pstep_acq_inv in H. destruct H as (J & a & p & k & x & o & r & El & Ek & Ex & Eo & Er & Eh & ->).
      apply lookup_inv in El. destruct El as (Ei & _).
      unfold own_inv, iskel, oskel. simpl.
      rewrite (iskel_moved' c i J n _ Ei). rewrite (oskel_upd c o r); auto.
    - apply pstep_load_inv in H. destruct H as (J & a & p & o & r & El & Eo & Er & ->).
      apply lookup_inv in El. destruct El as (Ei & _).
      unfold own_inv, iskel, oskel. simpl.
      rewrite (iskel_moved' c i J n _ Ei). exact IH.
    - apply pstep_store_inv in H.
      destruct H as (J & a & p & l & k & x & o & r & x' & s' & El & Ek & Ex & Eo & Er & Eh & ->).
      apply lookup_inv in El. destruct El as (Ei & _).
      unfold own_inv, iskel, oskel. simpl.
      rewrite (iskel_moved' c i J n _ Ei). rewrite (oskel_upd c o r); auto.
    - apply pstep_rel_inv in H. destruct H as (J & a & p & o & r & q & El & Eo & Er & ->).
      apply lookup_inv in El. destruct El as (Ei & _).
      unfold own_inv, iskel, oskel. simpl.
      rewrite (iskel_moved c i J n _ q Ei). rewrite (oskel_upd c o r); auto.
    - apply pstep_adv_inv in H. destruct H as (J & a & p & El & En & [(p' & q & _ & ->)|(x & g & G & -> & Es & EG & ->)]).
      + apply lookup_inv in El. destruct El as (Ei & _).
        unfold own_inv, iskel, oskel. simpl.
        rewrite (iskel_moved c i J n _ q Ei). exact IH.
      + apply lookup_inv in El. destruct El as (Ei & _).
        set (c1 := new_inst c (i_run J) g G (Some i) (i_obj J) x).
        assert (Ei' : nth_error (c_insts c1) i = Some J).
        { unfold c1, StateLockLTS.new_inst. destruct (g_state G); simpl; rewrite nth_error_app1; auto; eapply nth_some_lt; eauto. }
        assert (H1 : own_inv c1).
        { apply own_new_inst; auto. exists (i_graph J), (i_parent J). apply iskel_nth in Ei. exact Ei. }
        unfold own_inv, iskel, oskel. simpl.
        rewrite (iskel_moved' c1 i J n _ Ei'). exact H1.
    - apply pstep_resume_inv in H. destruct H as (r & Er & Eh & ->).
      unfold own_inv, iskel, oskel, resumed. simpl.
      rewrite map_map. rewrite (map_ext _ (fun J => remap_sk o (List.length (c_objs c)) (static_of J)))
        by (intros; apply remap_sk_static).
      rewrite <- map_map. rewrite map_app. simpl.
      replace (List.length (c_objs c)) with (List.length (oskel c)) by (unfold oskel; apply map_length).
      apply own_sk_resume; auto.
      + unfold oskel. apply map_nth_error. auto.
      + apply iskel_bound; auto.
  Qed.

  Lemma own_reach : forall c, preach c -> own_inv c.
  Proof.
    induction 1; [apply own_sk_nil|].
    eapply own_step; eauto. apply (inv_val_reach S X gen hfun lout mrg f x0 c H).
  Qed.

  (* ---------------------------------------------------------------- where objects come from *)

  Notation ogen := (ogen S).
  Notation dead := (dead S X).

  Definition origin_inv (c : config) : Prop :=
    (forall o r g, nth_error (c_objs c) o = Some r -> o_origin r = OGen g ->
        o_init r = gen g /\ exists K, nth_error (c_insts c) (o_inst r) = Some K /\ i_graph K = g) /\
    (forall o' r' o m, nth_error (c_objs c) o' = Some r' -> o_origin r' = OResumed o m ->
        (o < o')%nat /\ exists r, nth_error (c_objs c) o = Some r /\ o_holder r = None /\
                                  o_init r' = m (o_val r) /\ o_inst r' = o_inst r /\ dead c o) /\
    c_gens c = flat_map ogen (c_objs c).

  Lemma flat_map_upd_same : forall A B (g : A -> list B) (l : list A) i a a',
    nth_error l i = Some a -> g a' = g a -> flat_map g (upd l i a') = flat_map g l.
  Proof.
    induction l; destruct i; simpl; intros; try discriminate; auto.
    - inv H. rewrite H0. reflexivity.
    - f_equal. eapply IHl; eauto.
  Qed.

  (* a move of instance i that changes at most the holder / the value of the object it sees *)
  Lemma origin_moved : forall (c c' : config) i J J',
    nth_error (c_insts c) i = Some J ->
    c_insts c' = upd (c_insts c) i J' -> static_of J' = static_of J ->
    (c_objs c' = c_objs c \/
     exists o r rn, i_obj J = Some o /\ nth_error (c_objs c) o = Some r /\
                    c_objs c' = upd (c_objs c) o rn /\
                    o_init rn = o_init r /\ o_inst rn = o_inst r /\ o_origin rn = o_origin r) ->
    c_gens c' = c_gens c ->
    origin_inv c -> origin_inv c'.
  Proof.
    intros c c' i J J' Ei Hins Hst Hobjs Hgens (IG & IR & IGens).
    assert (Hfw : forall k K, nth_error (c_insts c) k = Some K ->
                   exists K', nth_error (c_insts c') k = Some K' /\ static_of K' = static_of K).
    { intros k K HK. rewrite Hins. destruct (Nat.eq_dec k i).
      - subst k. rewrite Ei in HK. inv HK. exists J'. split; auto. apply nth_upd_eq. eapply nth_some_lt; eauto.
      - exists K. split; auto. rewrite nth_upd_neq; auto. }
    assert (Hbw : forall k K', nth_error (c_insts c') k = Some K' ->
                   exists K, nth_error (c_insts c) k = Some K /\ static_of K' = static_of K).
    { intros k K' HK. rewrite Hins in HK. apply upd_cases in HK. destruct HK as [(-> & -> & _)|(_ & HK)]; eauto. }
    assert (Hdead : forall o, dead c o -> dead c' o).
    { intros o Hd k K' HK. destruct (Hbw _ _ HK) as (K & HK0 & Hs). unfold static_of in Hs. inv Hs.
      rewrite H3. eapply Hd; eauto. }
    destruct Hobjs as [Hobjs|(o & r & rn & Eo & Er & Hobjs & Hin & Hinst & Hor)].
    - unfold origin_inv. rewrite Hobjs. split; [|split].
      + intros o r g Hr Hg. destruct (IG _ _ _ Hr Hg) as (? & K & HK & HgK). split; auto.
        destruct (Hfw _ _ HK) as (K' & HK' & Hs). exists K'. split; auto. unfold static_of in Hs. inv Hs. auto.
      + intros o' r' o m Hr Ho. destruct (IR _ _ _ _ Hr Ho) as (? & r & ? & ? & ? & ? & Hd).
        split; auto. exists r. repeat split; auto.
      + congruence.
    - assert (Hobj_bw : forall o1 r1, nth_error (c_objs c') o1 = Some r1 ->
                 exists r0, nth_error (c_objs c) o1 = Some r0 /\ o_init r1 = o_init r0 /\
                            o_inst r1 = o_inst r0 /\ o_origin r1 = o_origin r0).
      { intros o1 r1 H1. rewrite Hobjs in H1. apply upd_cases in H1. destruct H1 as [(-> & -> & _)|(_ & H1)]; eauto. }
      split; [|split].
      + intros o1 r1 g Hr Hg. destruct (Hobj_bw _ _ Hr) as (r0 & Hr0 & E1 & E2 & E3).
        rewrite E3 in Hg. destruct (IG _ _ _ Hr0 Hg) as (? & K & HK & HgK). rewrite E1, E2. split; auto.
        destruct (Hfw _ _ HK) as (K' & HK' & Hs). exists K'. split; auto. unfold static_of in Hs. inv Hs. auto.
      + intros o' r' od m Hr Ho. destruct (Hobj_bw _ _ Hr) as (r0 & Hr0 & E1 & E2 & E3).
        rewrite E3 in Ho. destruct (IR _ _ _ _ Hr0 Ho) as (Hlt & rd & Hrd & Hh & Hi & Hn & Hd).
        split; auto.
        assert (od <> o). { intro; subst od. eapply Hd; eauto. }
        exists rd. rewrite Hobjs. rewrite nth_upd_neq by auto. rewrite E1, E2. repeat split; auto.
      + rewrite Hgens, IGens, Hobjs. symmetry. eapply flat_map_upd_same; eauto.
        unfold ogen. rewrite Hor. reflexivity.
  Qed.

  Lemma origin_new_inst : forall c r g G par inh x,
    (inh = None \/ exists i J, nth_error (c_insts c) i = Some J /\ inh = i_obj J) ->
    origin_inv c -> origin_inv (new_inst c r g G par inh x).
  Proof.
    intros c r g G par inh x Hinh (IG & IR & IGens).
    assert (Hdead : forall o, (o < List.length (c_objs c))%nat -> dead c o -> dead (new_inst c r g G par inh x) o).
    { intros o Hlt Hd k K HK. apply new_inst_insts in HK. destruct HK as [HK|[-> ->]]; [eapply Hd; eauto|].
      simpl. destruct (g_state G).
      - intro E. inv E. lia.
      - destruct Hinh as [->|(i & J & HJ & ->)]; [discriminate|]. eapply Hd; eauto. }
    assert (Hold : forall k K, nth_error (c_insts c) k = Some K ->
                     nth_error (c_insts (new_inst c r g G par inh x)) k = Some K).
    { intros k K HK. unfold StateLockLTS.new_inst. destruct (g_state G); simpl; apply nth_app_old; auto. }
    split; [|split].
    - intros o r0 g0 Hr Hg. apply new_inst_objs in Hr. destruct Hr as [Hr|(Hs & -> & ->)].
      + destruct (IG _ _ _ Hr Hg) as (? & K & HK & ?). split; auto. exists K. split; auto.
      + simpl in *. inv Hg. split; auto.
        exists (mkInst r g0 par (Some (List.length (c_objs c))) x (init_ns S X G) []). split; [|reflexivity].
        unfold StateLockLTS.new_inst. rewrite Hs. simpl. apply nth_app_new.
    - intros o' r' o m Hr Ho. apply new_inst_objs in Hr. destruct Hr as [Hr|(Hs & -> & ->)]; [|discriminate].
      destruct (IR _ _ _ _ Hr Ho) as (Hlt & rd & Hrd & Hh & Hi & Hn & Hd). split; auto.
      exists rd. repeat split; auto.
      + unfold StateLockLTS.new_inst. destruct (g_state G); simpl; auto. apply nth_app_old; auto.
      + apply Hdead; auto. eapply nth_some_lt; eauto.
    - unfold StateLockLTS.new_inst. destruct (g_state G); simpl; auto.
      rewrite flat_map_app. simpl. rewrite IGens. reflexivity.
  Qed.

  Lemma origin_step : forall c ch c', origin_inv c -> pstep c ch = Some c' -> origin_inv c'.
  Proof.
    intros c ch c' IH H. destruct ch as [r|i n|i n|i n|i n|i n|o m].
    - apply pstep_start_inv in H. destruct H as (G & HG & ->). apply origin_new_inst; auto.
    - apply pstep_acq_inv in H. destruct H as (J & a & p & k & x & o & r & El & Ek & Ex & Eo & Er & Eh & ->).
      apply lookup_inv in El. destruct El as (Ei & _).
      eapply (origin_moved c _ i J); [exact Ei|reflexivity|reflexivity| |reflexivity|exact IH].
      right. exists o, r, (with_holder S r (Some (i, n))). repeat split; auto.
    - apply pstep_load_inv in H. destruct H as (J & a & p & o & r & El & Eo & Er & ->).
      apply lookup_inv in El. destruct El as (Ei & _).
      eapply (origin_moved c _ i J); [exact Ei|reflexivity|reflexivity| |reflexivity|exact IH]. left. reflexivity.
    - apply pstep_store_inv in H.
      destruct H as (J & a & p & l & k & x & o & r & x' & s' & El & Ek & Ex & Eo & Er & Eh & ->).
      apply lookup_inv in El. destruct El as (Ei & Eg & _).
      eapply (origin_moved c _ i J); [exact Ei|reflexivity|reflexivity| |reflexivity|exact IH].
      right. exists o, r, (with_val S r s'). repeat split; auto.
    - apply pstep_rel_inv in H. destruct H as (J & a & p & o & r & q & El & Eo & Er & ->).
      apply lookup_inv in El. destruct El as (Ei & _).
      eapply (origin_moved c _ i J); [exact Ei|reflexivity|reflexivity| |reflexivity|exact IH].
      right. exists o, r, (with_holder S r None). repeat split; auto.
    - apply pstep_adv_inv in H. destruct H as (J & a & p & El & En & [(p' & q & _ & ->)|(x & g & G & -> & Es & EG & ->)]).
      + apply lookup_inv in El. destruct El as (Ei & _).
        eapply (origin_moved c _ i J); [exact Ei|reflexivity|reflexivity| |reflexivity|exact IH]. left. reflexivity.
      + apply lookup_inv in El. destruct El as (Ei & _).
        set (c1 := new_inst c (i_run J) g G (Some i) (i_obj J) x).
        assert (Ei' : nth_error (c_insts c1) i = Some J).
        { unfold c1, StateLockLTS.new_inst. destruct (g_state G); simpl; rewrite nth_error_app1; auto; eapply nth_some_lt; eauto. }
        assert (H1 : origin_inv c1) by (apply origin_new_inst; eauto).
        eapply (origin_moved c1 _ i J); [exact Ei'|reflexivity|reflexivity| |reflexivity|exact H1]. left. reflexivity.
    - apply pstep_resume_inv in H. destruct H as (r & Er & Eh & ->).
      destruct IH as (IG & IR & IGens).
      assert (Holt : (o < List.length (c_objs c))%nat) by (eapply nth_some_lt; eauto).
      assert (Hdead : forall od, (od < List.length (c_objs c))%nat -> (od = o \/ dead c od) -> dead (resumed S X c o m r) od).
      { intros od Hlt Hd k K HK. apply resumed_insts in HK. destruct HK as (K1 & HK1 & ->).
        unfold remap. destruct (i_obj K1) as [o1|] eqn:E1; [|congruence].
        destruct (Nat.eqb_spec o1 o).
        - simpl. intro E. inv E. lia.
        - rewrite E1. destruct Hd as [->|Hd]; [congruence|]. rewrite <- E1. eapply Hd; eauto. }
      split; [|split].
      + intros o1 r1 g Hr Hg. unfold resumed in Hr; simpl in Hr.
        apply nth_app_cases in Hr. destruct Hr as [[Hr _]|[-> ->]]; [|discriminate].
        destruct (IG _ _ _ Hr Hg) as (? & K & HK & ?). split; auto.
        exists (remap S X o (List.length (c_objs c)) K). split.
        * unfold resumed; simpl. apply map_nth_error. auto.
        * destruct (remap_static S X o (List.length (c_objs c)) K) as (_ & -> & _). auto.
      + intros o' r' od m' Hr Ho. unfold resumed in Hr; simpl in Hr.
        apply nth_app_cases in Hr. destruct Hr as [[Hr _]|[-> ->]].
        * destruct (IR _ _ _ _ Hr Ho) as (Hlt & rd & Hrd & Hh & Hi & Hn & Hd). split; auto.
          exists rd. unfold resumed at 1; simpl. repeat split; auto.
          -- apply nth_app_old; auto.
          -- apply Hdead; auto. eapply nth_some_lt; eauto.
        * simpl in Ho. inv Ho. split; auto. exists r. unfold resumed at 1; simpl. repeat split; auto.
          apply nth_app_old; auto.
      + unfold resumed; simpl. rewrite flat_map_app. simpl. rewrite app_nil_r. auto.
  Qed.

  Lemma origin_init : origin_inv (init_cfg S X).
  Proof.
    split; [|split]; simpl; auto; intros; destruct o; try destruct o'; discriminate.
  Qed.

  Lemma origin_reach : forall c, preach c -> origin_inv c.
  Proof. induction 1; [apply origin_init|eapply origin_step; eauto]. Qed.

  Lemma iskel_inv : forall (c : config) k s, nth_error (iskel c) k = Some s ->
    exists K, nth_error (c_insts c) k = Some K /\ static_of K = s.
  Proof.
    intros c k s H. unfold iskel in H. rewrite nth_error_map in H.
    destruct (nth_error (c_insts c) k) as [K|]; [|discriminate]. inv H. eauto.
  Qed.

  Lemma oskel_nth : forall (c : config) o r, nth_error (c_objs c) o = Some r -> nth_error (oskel c) o = Some (o_inst r).
  Proof. intros. unfold oskel. apply map_nth_error. auto. Qed.

  Lemma oskel_inv : forall (c : config) o k, nth_error (oskel c) o = Some k ->
    exists r, nth_error (c_objs c) o = Some r /\ o_inst r = k.
  Proof.
    intros c o k H. unfold oskel in H. rewrite nth_error_map in H.
    destruct (nth_error (c_objs c) o) as [r|]; [|discriminate]. inv H. eauto.
  Qed.

  Lemma stateful_gstate : forall J : inst, stateful S X f J = gstate (i_graph J).
  Proof. reflexivity. Qed.

  (* state is per run and per stateful graph instance *)
  Theorem fresh_state_preach : forall c, preach c ->
    (forall i i' J J' o, nth_error (c_insts c) i = Some J -> nth_error (c_insts c) i' = Some J' ->
        i_obj J = Some o -> i_obj J' = Some o -> i_run J = i_run J') /\
    (forall i i' J J' o, nth_error (c_insts c) i = Some J -> nth_error (c_insts c) i' = Some J' ->
        stateful S X f J = true -> stateful S X f J' = true ->
        i_obj J = Some o -> i_obj J' = Some o -> i = i') /\
    (forall i J, nth_error (c_insts c) i = Some J -> stateful S X f J = true ->
        exists o r, i_obj J = Some o /\ nth_error (c_objs c) o = Some r /\ o_inst r = i) /\
    (forall i J, nth_error (c_insts c) i = Some J -> stateful S X f J = false ->
        match i_parent J with
        | None => i_obj J = None
        | Some pi => exists PJ, nth_error (c_insts c) pi = Some PJ /\ i_obj J = i_obj PJ /\ i_run PJ = i_run J
        end) /\
    (forall o r g, nth_error (c_objs c) o = Some r -> o_origin r = OGen g ->
        o_init r = gen g /\ exists K, nth_error (c_insts c) (o_inst r) = Some K /\ i_graph K = g) /\
    c_gens c = flat_map ogen (c_objs c).
  Proof.
    intros c Hr. pose proof (own_reach c Hr) as (H1 & H2 & H3 & H4 & H5).
    pose proof (origin_reach c Hr) as (IG & IR & IGens).
    split; [|split; [|split; [|split; [|split]]]]; auto.
    - intros i i' J J' o Hi Hi' Ho Ho'.
      apply iskel_nth in Hi. apply iskel_nth in Hi'. unfold static_of in Hi, Hi'. rewrite Ho in Hi. rewrite Ho' in Hi'.
      destruct (H4 _ _ _ _ _ Hi) as (k & gk & pk & Hk & HK & _).
      destruct (H4 _ _ _ _ _ Hi') as (k' & gk' & pk' & Hk' & HK' & _).
      rewrite Hk in Hk'. inv Hk'. rewrite HK in HK'. inv HK'. auto.
    - intros i i' J J' o Hi Hi' Hs Hs' Ho Ho'.
      apply iskel_nth in Hi. apply iskel_nth in Hi'. unfold static_of in Hi, Hi'.
      rewrite stateful_gstate in Hs, Hs'.
      destruct (H2 _ _ _ _ _ Hi Hs) as (ob & E1 & Hob). destruct (H2 _ _ _ _ _ Hi' Hs') as (ob' & E1' & Hob').
      rewrite Ho in E1. rewrite Ho' in E1'. inv E1. inv E1'. congruence.
    - intros i J Hi Hs. apply iskel_nth in Hi. unfold static_of in Hi. rewrite stateful_gstate in Hs.
      destruct (H2 _ _ _ _ _ Hi Hs) as (ob & E1 & Hob). apply oskel_inv in Hob. destruct Hob as (r & Hr0 & Hk).
      exists ob, r. auto.
    - intros i J Hi Hs. pose proof Hi as Hi0. apply iskel_nth in Hi. unfold static_of in Hi. rewrite stateful_gstate in Hs.
      pose proof (H3 _ _ _ _ _ Hi Hs) as Hp. destruct (i_parent J) as [pi|]; auto.
      destruct Hp as (r' & g' & p' & Hp). destruct (H1 _ _ _ _ _ Hi) as (_ & g'' & p'' & o'' & Hp').
      rewrite Hp in Hp'. inv Hp'.
      apply iskel_inv in Hp. destruct Hp as (PJ & HPJ & Hst). unfold static_of in Hst. inv Hst.
      exists PJ. auto.
  Qed.

  Notation hist := (hist S X).
  Notation apply_all := (apply_all S X hfun).

  (* the state is carried unchanged, apart from the caller's modifier, across interrupt and
     resume: the object made at resume starts from m applied to the fold of everything that
     happened to the old object, the old object is never seen again, and everything that
     happens after the resume is folded on top *)
  Theorem state_survives_resume_preach : forall c, preach c ->
    forall o' r' o m, nth_error (c_objs c) o' = Some r' -> o_origin r' = OResumed o m ->
    exists r, nth_error (c_objs c) o = Some r /\ (o < o')%nat /\ dead c o /\ o_holder r = None /\
              o_inst r' = o_inst r /\
              o_init r' = m (apply_all (hist c o) (o_init r)) /\
              o_val r' = apply_all (hist c o') (m (apply_all (hist c o) (o_init r))).
  Proof.
    intros c Hr o' r' o m Hr' Ho.
    destruct (origin_reach c Hr) as (_ & IR & _).
    destruct (IR _ _ _ _ Hr' Ho) as (Hlt & r & Hro & Hh & Hi & Hn & Hd).
    pose proof (no_lost_update_preach S X gen hfun lout mrg f x0 c Hr) as Hv.
    exists r. repeat split; auto.
    - rewrite Hi, (Hv _ _ Hro). reflexivity.
    - rewrite (Hv _ _ Hr'), Hi, (Hv _ _ Hro). reflexivity.
  Qed.
End Own.
