(* Proofs/CheckpointStream.v — property C05, clause "in any calling paradigm ... (mixing paradigms)": the stream <-> value
   conversion of checkpointed data (Model/CheckpointStream.v, tied to compose/checkpoint.go, generic_helper.go and
   stream_concat.go by translation: Proofs/GenAgreeC05Stream.v). *)
From Eino Require Import Base.Util Model.CheckpointStreamLib Model.CheckpointStream.
Open Scope N_scope.

(* ---------------------------------------------------------------- across the paradigms *)
Section Roundtrip.
  Variable V : Type.
  Variable concat_items : list (option V) -> res (option V).
  Notation conv := (m_convert_entry V concat_items).
  Notation rest := (m_restore_entry V).
  Notation catV := (cat V concat_items).

  Lemma cat_single : forall c, catV [c] = COk c.
  Proof. reflexivity. Qed.

  (* A live entry [v] of a run (with streams: w = true; without: w = false) denoting the chunks [items] is written
     to the checkpoint as [s]. A run of ANY paradigm r that resumes from the checkpoint finds a live entry of its
     own kind that denotes chunks concatenating to exactly what [items] concatenate to: the same chunk (the nil
     value of an interface type included), or no chunk at all. The one combination without a counterpart is
     excluded: a stream without chunks has no value (a run without streams cannot be handed "nothing"; in the
     uninterrupted streaming run a node that concatenates such an input fails as well). *)
  Theorem paradigm_roundtrip_l : forall (w r : bool) (v s : dyn V) items,
    live V w v -> den V v = Some items -> conv w v = Ok s ->
    (r = false -> items <> []) ->
    exists v' items', rest r s = Ok v' /\ live V r v' /\ den V v' = Some items' /\ catV items' = catV items.
  Proof.
    intros w r v s items Hl Hd Hc Hne. destruct w; simpl in Hl.
    - (* written by a run with streams *)
      destruct Hl as [its ->]. simpl in Hd. inversion Hd; subst its. simpl in Hc.
      unfold m_concat_stream in Hc. fold (catV items) in Hc.
      destruct (catV items) as [|[x|]|e] eqn:Hcat; inversion Hc; subst s; clear Hc.
      + (* no chunk *)
        destruct r.
        * exists (DStream []), []. simpl. repeat split; eauto.
        * exfalso. destruct items as [|c [|c' l]]; [apply Hne; reflexivity| discriminate |].
          unfold cat, m_concat_reader, cres_of in Hcat. destruct (concat_items (c :: c' :: l)); discriminate.
      + destruct r.
        * exists (DStream [Some x]), [Some x]. simpl. repeat split; eauto.
        * exists (DVal x), [Some x]. simpl. repeat split; eauto.
      + destruct r.
        * exists (DStream [None]), [None]. simpl. repeat split; eauto.
        * exists DNil, [None]. simpl. repeat split; eauto.
    - (* written by a run without streams *)
      destruct Hl as [-> | [x ->]]; simpl in Hd, Hc; inversion Hd; subst items; inversion Hc; subst s.
      + destruct r.
        * exists (DStream [None]), [None]. simpl. repeat split; eauto.
        * exists DNil, [None]. simpl. repeat split; eauto.
      + destruct r.
        * exists (DStream [Some x]), [Some x]. simpl. repeat split; eauto.
        * exists (DVal x), [Some x]. simpl. repeat split; eauto.
  Qed.

  (* F-C05g (fixed fb04a24): a run without streams wrote the nil value of an interface type as a plain nil; a
     resume with streams reads that as a stream WITHOUT chunks: the node is not handed the nil value it was about
     to be handed, its input concatenates to nothing ("stream reader is empty") *)
  Theorem paradigm_roundtrip_v0_refuted_l :
    m_convert_entry_v0 V concat_items false DNil = Ok DNil /\
    rest true DNil = Ok (DStream []) /\
    catV [] = CEmpty /\ catV [None] = COk None.
  Proof. repeat split; reflexivity. Qed.

  (* F-C05h: before 57995e9 the nil value of an interface type sitting in a CHANNEL (the answer of a node folded into its
     successor's channel when the checkpoint is assembled mid-step), written by a run without streams as the marker,
     came back to a run without streams as the marker itself - not a live value of such a run: the successor was handed
     a compose.nilChunk - whereas the same entry as a pending input came back as nil *)
  Theorem paradigm_roundtrip_channel_v0_refuted_l :
    live V false DNil /\ (conv false DNil = Ok DNilChunk) /\
    (m_restore_channel_entry_v0 V false DNilChunk = Ok DNilChunk) /\ (~ live V false DNilChunk) /\
    (rest false DNilChunk = Ok DNil).
  Proof.
    repeat split; try reflexivity.
    - left; reflexivity.
    - intros [H | [x H]]; discriminate H.
  Qed.
End Roundtrip.
