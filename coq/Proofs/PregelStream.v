(* Proofs/PregelStream.v — the STREAM FORM of an any-predecessor run agrees with the value form (C01).
   The engine model is parametric in the type of the values that flow and in the operations on them
   ([vops]). Take two instances related by an abstraction function [phi : V1 -> V2] — V1 = what flows in stream
   mode (a sequence of chunks), V2 = the values, phi = concatenation — such that sizes (what conditions read),
   wrapping (output keys), the field-mapping normalisation and node bodies commute with phi, and such that a
   fan-in that succeeds on the values succeeds on the streams with the corresponding result (a stream fan-in
   may succeed where the value fan-in fails: duplicated keys, F-C04). Then for every forest of any-predecessor
   graphs, every input: either the value run fails with a fan-in error ([diverged]), or the stream run is the
   value run: same result (under phi), same failures, same execution log (inputs under phi), same state. *)
From Eino Require Import Base.Util Model.Graph Proofs.PregelBase Proofs.Pregel Proofs.PregelRun Proofs.PregelNest.
From Coq Require Import Lia.
Open Scope N_scope.

Section StreamSim.
  Variable V1 V2 St : Type.
  Variable ops1 : vops V1.
  Variable ops2 : vops V2.
  Variable phi : V1 -> V2.
  Variable merr : N -> bool.        (* the error classes of a failed fan-in of values *)

  Hypothesis phi_size : forall a, v_size ops1 a = v_size ops2 (phi a).
  Hypothesis phi_wrap : forall k a, phi (v_wrap ops1 k a) = v_wrap ops2 k (phi a).
  Hypothesis phi_norm : forall a, phi (v_norm ops1 a) = v_norm ops2 (phi a).
  Hypothesis phi_zero : phi (v_zero ops1) = v_zero ops2.

  Definition amap {A B} (f : A -> B) (l : list (key * A)) : list (key * B) := map (fun kv => (fst kv, f (snd kv))) l.

  (* fan-in: what succeeds on values succeeds on streams, with the corresponding result; a failure of the
     value fan-in has a class in [merr]; it never panics *)
  Hypothesis phi_merge : forall l,
    match v_merge ops2 (amap phi l) with
    | Ok b => exists a, v_merge ops1 l = Ok a /\ phi a = b
    | Err e => merr e = true
    | Panic => False
    end.

  (* ---------- association lists ---------- *)
  Lemma amap_insert : forall {A B} (f : A -> B) k v l, amap f (ainsert k v l) = ainsert k (f v) (amap f l).
  Proof.
    intros A B f k v l. induction l as [|[k' v'] l IH]; simpl; [reflexivity|].
    destruct (N.ltb k k'); [reflexivity|]. destruct (N.eqb k k'); [reflexivity|]. simpl. rewrite IH. reflexivity.
  Qed.

  Lemma amap_lookup : forall {A B} (f : A -> B) k l, alookup k (amap f l) = option_map f (alookup k l).
  Proof.
    intros A B f k l. induction l as [|[k' v'] l IH]; simpl; [reflexivity|].
    destruct (N.eqb k k'); [reflexivity|exact IH].
  Qed.

  Lemma amap_keys : forall {A B} (f : A -> B) l, akeys (amap f l) = akeys l.
  Proof. intros. unfold akeys, amap. rewrite map_map. reflexivity. Qed.

  Lemma amap_app : forall {A B} (f : A -> B) l1 l2, amap f (l1 ++ l2) = amap f l1 ++ amap f l2.
  Proof. intros. unfold amap. apply map_app. Qed.

  (* ---------- channels ---------- *)
  Definition cmap (c : chan V1) : chan V2 :=
    {| c_ctrl := c_ctrl V1 c; c_data := c_data V1 c; c_skipped := c_skipped V1 c; c_vals := amap phi (c_vals V1 c) |}.
  Definition csmap (cs : chans V1) : chans V2 := map (fun kc => (fst kc, cmap (snd kc))) cs.

  Definition wmap (ws : writes_t V1) : writes_t V2 := map (fun w => (fst w, (fst (snd w), phi (snd (snd w))))) ws.

  Lemma choose_phi : forall b a, choose V1 ops1 b a = choose V2 ops2 b (phi a).
  Proof. intros. unfold choose. rewrite phi_size. reflexivity. Qed.

  Lemma eval_branches_phi : forall n a, eval_branches V1 ops1 n a = eval_branches V2 ops2 n (phi a).
  Proof.
    intros n a. unfold eval_branches.
    assert (H : map (fun b => (b, choose V1 ops1 b a)) (n_branches n) = map (fun b => (b, choose V2 ops2 b (phi a))) (n_branches n)).
    { apply map_ext. intros b. rewrite choose_phi. reflexivity. }
    rewrite H. reflexivity.
  Qed.

  Lemma edge_value_phi : forall n t a, phi (edge_value V1 ops1 n t a) = edge_value V2 ops2 n t (phi a).
  Proof. intros. unfold edge_value. destruct (alookup t (n_dmap n)); [apply phi_wrap|reflexivity]. Qed.

  Definition r3map (r : res (chans V1 * writes_t V1 * deps_t)) : res (chans V2 * writes_t V2 * deps_t) :=
    match r with
    | Ok (cs, ws, ds) => Ok (csmap cs, wmap ws, ds)
    | Err e => Err e
    | Panic => Panic
    end.

  Lemma resolve_one_phi : forall g n a cs,
    g_mode g = Pregel ->
    resolve_one V2 ops2 g n (phi a) (csmap cs) = r3map (resolve_one V1 ops1 g n a cs).
  Proof.
    intros g n a cs Hm. unfold resolve_one. rewrite <- eval_branches_phi.
    destruct (eval_branches V1 ops1 n a) as [[sel sk]|e|]; simpl; [|reflexivity|reflexivity].
    unfold report_branch. rewrite Hm. simpl. f_equal. f_equal. f_equal.
    unfold wmap. rewrite map_map. apply map_ext. intros t. simpl. rewrite edge_value_phi. reflexivity.
  Qed.

  Lemma wmap_app : forall w1 w2, wmap (w1 ++ w2) = wmap w1 ++ wmap w2.
  Proof. intros. unfold wmap. apply map_app. Qed.

  Lemma resolve_all_phi : forall g outs cs,
    g_mode g = Pregel ->
    resolve_all V2 ops2 g (amap phi outs) (csmap cs) = r3map (resolve_all V1 ops1 g outs cs).
  Proof.
    intros g outs. induction outs as [|[k a] outs IH]; intros cs Hm; simpl; [reflexivity|].
    destruct (find_node g k) as [n|]; [|reflexivity].
    rewrite resolve_one_phi by exact Hm.
    destruct (resolve_one V1 ops1 g n a cs) as [[[cs1 w1] d1]|e|]; simpl; [|reflexivity|reflexivity].
    rewrite IH by exact Hm.
    destruct (resolve_all V1 ops1 g outs cs1) as [[[cs2 w2] d2]|e|]; simpl; [|reflexivity|reflexivity].
    rewrite wmap_app. reflexivity.
  Qed.

  Lemma incoming_vals_phi : forall g t ws,
    incoming_vals V2 g t (wmap ws) = amap phi (incoming_vals V1 g t ws).
  Proof.
    intros g t ws. unfold incoming_vals. induction ws as [|[t' [s v]] ws IH]; simpl; [reflexivity|].
    destruct (N.eqb t' t && memb s (dpreds g t))%bool; simpl; rewrite IH; reflexivity.
  Qed.

  Lemma pregel_report_values_phi : forall c ins,
    pregel_report_values V2 (cmap c) (amap phi ins) = cmap (pregel_report_values V1 c ins).
  Proof.
    intros c ins. unfold pregel_report_values, set_vals, cmap. simpl. f_equal.
    generalize (c_vals V1 c). induction ins as [|[k v] ins IH]; intros m; simpl; [reflexivity|].
    rewrite <- amap_insert. apply IH.
  Qed.

  Lemma csmap_keys : forall cs, akeys (csmap cs) = akeys cs.
  Proof. intros. unfold akeys, csmap. rewrite map_map. reflexivity. Qed.

  Lemma targets_exist_phi : forall cs ws ds, targets_exist V2 (csmap cs) (wmap ws) ds = targets_exist V1 cs ws ds.
  Proof.
    intros. unfold targets_exist. rewrite csmap_keys. f_equal.
    unfold wmap. induction ws as [|w ws IH]; simpl; [reflexivity|]. rewrite IH. reflexivity.
  Qed.

  Lemma update_chans_phi : forall g ws ds cs,
    g_mode g = Pregel ->
    update_chans V2 g (wmap ws) ds (csmap cs) =
    match update_chans V1 g ws ds cs with Ok cs' => Ok (csmap cs') | Err e => Err e | Panic => Panic end.
  Proof.
    intros g ws ds cs Hm. unfold update_chans. rewrite targets_exist_phi.
    destruct (targets_exist V1 cs ws ds); [|reflexivity]. f_equal.
    unfold csmap. rewrite !map_map. apply map_ext. intros [k c]. unfold update_chan. rewrite Hm. simpl.
    rewrite incoming_vals_phi, pregel_report_values_phi. reflexivity.
  Qed.

  (* ---------- reading the channels: the fan-in ---------- *)
  Lemma get_merge_phi : forall vals,
    match get_merge V2 ops2 (amap phi vals) with
    | Ok b => exists a, get_merge V1 ops1 vals = Ok a /\ phi a = b
    | Err e => merr e = true
    | Panic => False
    end.
  Proof.
    intros vals. destruct vals as [|[k v] [|kv2 rest]].
    - simpl. exists (v_zero ops1). split; [reflexivity|exact phi_zero].
    - simpl. exists v. split; reflexivity.
    - change (get_merge V2 ops2 (amap phi ((k, v) :: kv2 :: rest))) with (v_merge ops2 (amap phi ((k, v) :: kv2 :: rest))).
      change (get_merge V1 ops1 ((k, v) :: kv2 :: rest)) with (v_merge ops1 ((k, v) :: kv2 :: rest)).
      apply phi_merge.
  Qed.

  Lemma pregel_get_phi : forall c,
    match pregel_get V2 ops2 (cmap c) with
    | Ok (ov2, c2) => exists ov1 c1, pregel_get V1 ops1 c = Ok (ov1, c1) /\ option_map phi ov1 = ov2 /\ cmap c1 = c2
    | Err e => merr e = true
    | Panic => False
    end.
  Proof.
    intros c. unfold pregel_get. cbn [cmap c_vals]. destruct (c_vals V1 c) as [|kv vals] eqn:E; cbn [amap map].
    - exists None, c. split; [reflexivity|]. split; [reflexivity|]. unfold cmap. rewrite E. reflexivity.
    - pose proof (get_merge_phi (kv :: vals)) as H. cbn [amap map] in H.
      destruct (get_merge V2 ops2 ((fst kv, phi (snd kv)) :: map (fun kv0 => (fst kv0, phi (snd kv0))) vals)) as [b|e|];
        cbn [res_bind].
      + destruct H as [a [Ha Hb]]. rewrite Ha. cbn [res_bind]. exists (Some a), (set_vals V1 c []).
        split; [reflexivity|]. split; [simpl; rewrite Hb; reflexivity|]. reflexivity.
      + exact H.
      + exact H.
  Qed.

  Lemma has_mapping_same : forall g k, has_mapping g k = has_mapping g k.
  Proof. reflexivity. Qed.

  Lemma pre_node_phi : forall g k a, phi (pre_node V1 ops1 g k a) = pre_node V2 ops2 g k (phi a).
  Proof. intros. unfold pre_node. destruct (has_mapping g k); [apply phi_norm|reflexivity]. Qed.

  Lemma get_all_phi : forall g cs,
    g_mode g = Pregel ->
    match get_all V2 ops2 g (csmap cs) with
    | Ok (cs2, r2) => exists cs1 r1, get_all V1 ops1 g cs = Ok (cs1, r1) /\ csmap cs1 = cs2 /\ amap phi r1 = r2
    | Err e => merr e = true
    | Panic => False
    end.
  Proof.
    intros g cs Hm. induction cs as [|[k c] cs IH].
    - simpl. exists [], []. repeat split.
    - simpl. unfold chan_get. rewrite Hm.
      pose proof (pregel_get_phi c) as Hc.
      destruct (pregel_get V2 ops2 (cmap c)) as [[ov2 c2]|e|]; simpl; [|exact Hc|exact Hc].
      destruct Hc as [ov1 [c1 [Hg [Ho Hcm]]]]. rewrite Hg. simpl.
      destruct (get_all V2 ops2 g (csmap cs)) as [[cs2 r2]|e|]; simpl; [|exact IH|exact IH].
      destruct IH as [cs1 [r1 [Hga [Hcs Hr]]]]. rewrite Hga. simpl.
      eexists. eexists. split; [reflexivity|]. split.
      + simpl. rewrite Hcm, Hcs. reflexivity.
      + subst ov2. destruct ov1 as [a|]; simpl; [|exact Hr]. rewrite pre_node_phi, Hr. reflexivity.
  Qed.

  Lemma calc_next_phi : forall g cs outs,
    g_mode g = Pregel ->
    match calc_next V2 ops2 g (csmap cs) (amap phi outs) with
    | Ok (cs2, r2) => exists cs1 r1, calc_next V1 ops1 g cs outs = Ok (cs1, r1) /\ csmap cs1 = cs2 /\ amap phi r1 = r2
    | Err e => calc_next V1 ops1 g cs outs = Err e \/ merr e = true
    | Panic => calc_next V1 ops1 g cs outs = Panic
    end.
  Proof.
    intros g cs outs Hm. unfold calc_next. rewrite resolve_all_phi by exact Hm.
    destruct (resolve_all V1 ops1 g outs cs) as [[[cs1 ws] ds]|e|]; simpl; [|left; reflexivity|reflexivity].
    rewrite update_chans_phi by exact Hm.
    destruct (update_chans V1 g ws ds cs1) as [cs2|e|]; simpl; [|left; reflexivity|reflexivity].
    pose proof (get_all_phi g cs2 Hm) as H.
    destruct (get_all V2 ops2 g (csmap cs2)) as [[cs3 r3]|e|]; [exact H|right; exact H|destruct H].
  Qed.

  (* ================= tasks, supersteps, runs ================= *)
  Definition rvmap (r : res V1) : res V2 := match r with Ok a => Ok (phi a) | Err e => Err e | Panic => Panic end.
  Definition tmap (t : tres V1) : tres V2 := match t with TOk v => TOk (phi v) | TErr es => TErr es end.
  Definition evmap (e : event V1) : event V2 := (fst e, phi (snd e)).
  Definition lemap (le : logentry V1) : logentry V2 := (fst le, map evmap (snd le)).
  Definition logmap (l : log V1) : log V2 := map lemap l.
  Definition omap (o : outcome V1) : outcome V2 :=
    match o with Done v l => Done (phi v) (logmap l) | Fail es l => Fail es (logmap l) end.

  Definition has_merr (es : list err) : bool := existsb (fun e => merr (e_class e)) es.
  (* the value run failed with a fan-in error (possibly inside a nested graph, possibly next to other failures) *)
  Definition diverged (o : outcome V2) : Prop :=
    match o with Fail es _ => has_merr es = true | Done _ _ => False end.

  Lemma has_merr_prefix : forall k es, has_merr (map (err_prefix k) es) = has_merr es.
  Proof. intros k es. unfold has_merr. induction es as [|e es IH]; simpl; [reflexivity|]. rewrite IH. reflexivity. Qed.

  Lemma has_merr_app : forall a b, has_merr (a ++ b) = (has_merr a || has_merr b)%bool.
  Proof. intros. unfold has_merr. apply existsb_app. Qed.

  Lemma logmap_app : forall l1 l2, logmap (l1 ++ l2) = logmap l1 ++ logmap l2.
  Proof. intros. unfold logmap. apply map_app. Qed.

  Lemma wrap_out_phi : forall n o, phi (wrap_out V1 ops1 n o) = wrap_out V2 ops2 n (phi o).
  Proof. intros. unfold wrap_out. destruct (n_outkey n); [apply phi_wrap|reflexivity]. Qed.

  Section Flat.
    Variable exec1 : St -> path -> V1 -> res V1 * St.
    Variable exec2 : St -> path -> V2 -> res V2 * St.
    Variable sub1 : nat -> path -> V1 -> St -> outcome V1 * St.
    Variable sub2 : nat -> path -> V2 -> St -> outcome V2 * St.
    Variable sched : nat -> list key -> nat.
    Variable g : graph.
    Hypothesis Hg : pregel_graph g.
    (* node bodies commute with phi (a harness lambda receives the concatenation of its input stream) *)
    Hypothesis exec_phi : forall s p a, exec2 s p (phi a) = (rvmap (fst (exec1 s p a)), snd (exec1 s p a)).
    Hypothesis sub_phi : forall i p a s,
      diverged (fst (sub2 i p (phi a) s)) \/
      (omap (fst (sub1 i p a s)) = fst (sub2 i p (phi a) s) /\ snd (sub1 i p a s) = snd (sub2 i p (phi a) s)).

    Definition task_div (t : tres V2) : Prop := match t with TErr es => has_merr es = true | TOk _ => False end.

    Lemma run_task_sim : forall p n a s,
      let r2 := run_task V2 St ops2 exec2 sub2 p n (phi a) s in
      let r1 := run_task V1 St ops1 exec1 sub1 p n a s in
      task_div (fst (fst r2)) \/
      (tmap (fst (fst r1)) = fst (fst r2) /\ logmap (snd (fst r1)) = snd (fst r2) /\ snd r1 = snd r2).
    Proof.
      intros p n a s. unfold run_task. destruct (n_kind n) as [| |i].
      - right. rewrite exec_phi. destruct (exec1 s (p ++ [n_key n]) a) as [[o|e|] s']; simpl.
        + rewrite wrap_out_phi. repeat split.
        + repeat split.
        + repeat split.
      - right. simpl. rewrite wrap_out_phi. repeat split.
      - destruct (sub_phi i (p ++ [n_key n]) a s) as [Hd|[Ho Hs]].
        + left. destruct (sub2 i (p ++ [n_key n]) (phi a) s) as [[r l|es l] s2]; simpl in *; [contradiction|].
          rewrite has_merr_prefix. exact Hd.
        + right. destruct (sub1 i (p ++ [n_key n]) a s) as [[r l|es l] s1];
            destruct (sub2 i (p ++ [n_key n]) (phi a) s) as [[r2 l2|es2 l2] s2]; simpl in *;
            try discriminate; inversion Ho; subst.
          * rewrite wrap_out_phi. repeat split.
          * repeat split.
    Qed.

    Definition rsmap (rs : list (key * tres V1)) : list (key * tres V2) := amap tmap rs.

    Lemma task_errors_rsmap : forall rs, task_errors V2 (rsmap rs) = task_errors V1 rs.
    Proof.
      induction rs as [|[k t] rs IH]; simpl; [reflexivity|]. unfold task_errors in *. simpl. rewrite IH.
      destruct t; reflexivity.
    Qed.

    Lemma task_outputs_rsmap : forall rs, task_outputs V2 (rsmap rs) = amap phi (task_outputs V1 rs).
    Proof.
      induction rs as [|[k t] rs IH]; simpl; [reflexivity|]. unfold task_outputs in *. simpl. rewrite IH.
      destruct t; reflexivity.
    Qed.

    Lemma submit_cons : forall (V : Type) (ops : vops V) (exec : St -> path -> V -> res V * St) sub p k v rest s,
      submit V St ops exec sub p g ((k, v) :: rest) s =
      match find_node g k with
      | None => let '(rs, l, s') := submit V St ops exec sub p g rest s in
                ((k, TErr [mkerr eUnknownNode]) :: rs, l, s')
      | Some n =>
        let '(r, l1, s1) := run_task V St ops exec sub p n v s in
        let '(rs, l2, s2) := submit V St ops exec sub p g rest s1 in
        ((k, r) :: rs, l1 ++ l2, s2)
      end.
    Proof. reflexivity. Qed.

    Lemma task_errors_cons : forall (V : Type) k (t : tres V) rs,
      task_errors V ((k, t) :: rs) = match t with TErr es => es | TOk _ => [] end ++ task_errors V rs.
    Proof. reflexivity. Qed.

    Lemma submit_sim : forall p tasks s,
      let r2 := submit V2 St ops2 exec2 sub2 p g (amap phi tasks) s in
      let r1 := submit V1 St ops1 exec1 sub1 p g tasks s in
      has_merr (task_errors V2 (fst (fst r2))) = true \/
      (rsmap (fst (fst r1)) = fst (fst r2) /\ logmap (snd (fst r1)) = snd (fst r2) /\ snd r1 = snd r2).
    Proof.
      intros p tasks. induction tasks as [|[k a] tasks IH]; intros s.
      - right. simpl. repeat split.
      - change (amap phi ((k, a) :: tasks)) with ((k, phi a) :: amap phi tasks). cbv zeta.
        rewrite !submit_cons. destruct (find_node g k) as [n|].
        + pose proof (run_task_sim p n a s) as Ht. cbv zeta in Ht.
          destruct (run_task V2 St ops2 exec2 sub2 p n (phi a) s) as [[t2 l2] s2].
          destruct (run_task V1 St ops1 exec1 sub1 p n a s) as [[t1 l1] s1]. simpl in Ht.
          destruct Ht as [Hd|[Ht [Hl Hs]]].
          * left. destruct (submit V2 St ops2 exec2 sub2 p g (amap phi tasks) s2) as [[rs2 lr2] sr2].
            cbn [fst snd]. rewrite task_errors_cons. destruct t2 as [v|es]; [contradiction|]. simpl in Hd.
            rewrite has_merr_app, Hd. reflexivity.
          * subst s2. specialize (IH s1). cbv zeta in IH.
            destruct (submit V2 St ops2 exec2 sub2 p g (amap phi tasks) s1) as [[rs2 lr2] sr2].
            destruct (submit V1 St ops1 exec1 sub1 p g tasks s1) as [[rs1 lr1] sr1]. cbn [fst snd] in *.
            destruct IH as [Hd|[Hr [Hl2 Hs2]]].
            -- left. rewrite task_errors_cons, has_merr_app, Hd. apply orb_true_r.
            -- right. subst. rewrite logmap_app. repeat split.
        + specialize (IH s). cbv zeta in IH.
          destruct (submit V2 St ops2 exec2 sub2 p g (amap phi tasks) s) as [[rs2 lr2] sr2].
          destruct (submit V1 St ops1 exec1 sub1 p g tasks s) as [[rs1 lr1] sr1]. cbn [fst snd] in *.
          destruct IH as [Hd|[Hr [Hl2 Hs2]]].
          * left. rewrite task_errors_cons, has_merr_app, Hd. apply orb_true_r.
          * right. subst. repeat split.
    Qed.

    Definition lsmap (ls : loopstate V1 St) : loopstate V2 St :=
      {| ls_step := ls_step V1 St ls; ls_chans := csmap (ls_chans V1 St ls); ls_next := amap phi (ls_next V1 St ls);
         ls_running := rsmap (ls_running V1 St ls); ls_st := ls_st V1 St ls; ls_log := logmap (ls_log V1 St ls) |}.

    Definition srmap (sr : step_result V1 St) : step_result V2 St :=
      match sr with Continue ls => Continue (lsmap ls) | Finish o s => Finish (omap o) s end.

    Definition div_sr (sr : step_result V2 St) : Prop :=
      match sr with Continue _ => False | Finish o _ => diverged o end.

    Lemma step_entry_phi : forall p tasks, step_entry V2 p (amap phi tasks) = lemap (step_entry V1 p tasks).
    Proof.
      intros. unfold step_entry, lemap. simpl. f_equal. unfold amap. rewrite !map_map. apply map_ext.
      intros [k v]. reflexivity.
    Qed.

    Lemma task_errors_app : forall (V : Type) (a b : list (key * tres V)),
      task_errors V (a ++ b) = task_errors V a ++ task_errors V b.
    Proof. intros. unfold task_errors. apply flat_map_app. Qed.

    Lemma rsmap_app : forall a b, rsmap (a ++ b) = rsmap a ++ rsmap b.
    Proof. intros. unfold rsmap. apply amap_app. Qed.

    Lemma step_sim : forall p (ls : loopstate V1 St),
      div_sr (step V2 St ops2 exec2 sub2 sched p g (lsmap ls)) \/
      srmap (step V1 St ops1 exec1 sub1 sched p g ls) = step V2 St ops2 exec2 sub2 sched p g (lsmap ls).
    Proof.
      intros p ls. destruct Hg as [Hm He]. unfold step. cbn [lsmap ls_step ls_chans ls_next ls_running ls_st ls_log].
      destruct (step_limit_hit g (ls_step V1 St ls)); [right; reflexivity|].
      pose proof (submit_sim p (ls_next V1 St ls) (ls_st V1 St ls)) as Hs. cbv zeta in Hs.
      destruct (submit V2 St ops2 exec2 sub2 p g (amap phi (ls_next V1 St ls)) (ls_st V1 St ls)) as [[rs2 l2] s2].
      destruct (submit V1 St ops1 exec1 sub1 p g (ls_next V1 St ls) (ls_st V1 St ls)) as [[rs1 l1] s1].
      cbn [fst snd] in Hs. unfold wait_tasks. rewrite He.
      destruct Hs as [Hd|[Hr [Hl Hst]]].
      - left. rewrite task_errors_app.
        destruct (task_errors V2 (rsmap (ls_running V1 St ls)) ++ task_errors V2 rs2) as [|e es] eqn:E.
        + apply app_eq_nil in E. destruct E as [_ E]. rewrite E in Hd. discriminate.
        + cbn [div_sr diverged]. rewrite <- E. rewrite has_merr_app, Hd. apply orb_true_r.
      - subst rs2 l2 s2. rewrite <- rsmap_app. rewrite task_errors_rsmap.
        assert (Hlg : logmap (ls_log V1 St ls) ++
                      match amap phi (ls_next V1 St ls) with [] => [] | _ :: _ => [step_entry V2 p (amap phi (ls_next V1 St ls))] end ++
                      logmap l1 =
                      logmap (ls_log V1 St ls ++
                              match ls_next V1 St ls with [] => [] | _ :: _ => [step_entry V1 p (ls_next V1 St ls)] end ++ l1)).
        { rewrite !logmap_app. f_equal. f_equal. destruct (ls_next V1 St ls); [reflexivity|].
          change (amap phi (p0 :: l)) with ((fst p0, phi (snd p0)) :: amap phi l).
          change ((fst p0, phi (snd p0)) :: amap phi l) with (amap phi (p0 :: l)). rewrite step_entry_phi. reflexivity. }
        rewrite Hlg.
        destruct (task_errors V1 (ls_running V1 St ls ++ rs1)) as [|e es]; [|right; reflexivity].
        destruct (ls_running V1 St ls ++ rs1) as [|c0 cs0] eqn:Ec; [right; reflexivity|].
        change (rsmap (c0 :: cs0)) with ((fst c0, tmap (snd c0)) :: rsmap cs0).
        change ((fst c0, tmap (snd c0)) :: rsmap cs0) with (rsmap (c0 :: cs0)).
        rewrite task_outputs_rsmap.
        pose proof (calc_next_phi g (ls_chans V1 St ls) (task_outputs V1 (c0 :: cs0)) Hm) as Hc.
        destruct (calc_next V2 ops2 g (csmap (ls_chans V1 St ls)) (amap phi (task_outputs V1 (c0 :: cs0)))) as [[cs2 r2]|e|].
        + destruct Hc as [cs1 [r1 [Hc1 [Hcs Hrr]]]]. rewrite Hc1. subst cs2 r2. right.
          rewrite amap_lookup. destruct (alookup kEND r1); reflexivity.
        + destruct Hc as [Hc|Hc].
          * rewrite Hc. right. reflexivity.
          * left. simpl. unfold has_merr. simpl. rewrite Hc. reflexivity.
        + rewrite Hc. right. reflexivity.
    Qed.

    Lemma iterate_sim : forall p fuel (ls : loopstate V1 St),
      let r2 := iterate V2 St ops2 exec2 sub2 sched p g fuel (lsmap ls) in
      let r1 := iterate V1 St ops1 exec1 sub1 sched p g fuel ls in
      diverged (fst r2) \/ (omap (fst r1) = fst r2 /\ snd r1 = snd r2).
    Proof.
      intros p fuel. induction fuel as [|f IH]; intros ls; cbv zeta.
      - right. simpl. split; reflexivity.
      - simpl. destruct (step_sim p ls) as [Hd|Hs].
        + left. destruct (step V2 St ops2 exec2 sub2 sched p g (lsmap ls)) as [ls2|o2 s2]; [contradiction|exact Hd].
        + rewrite <- Hs. destruct (step V1 St ops1 exec1 sub1 sched p g ls) as [ls1|o1 s1]; simpl.
          * apply IH.
          * right. split; reflexivity.
    Qed.

    Lemma init_chans_phi : csmap (init_chans_v0 V1 g) = init_chans_v0 V2 g.
    Proof.
      unfold init_chans_v0. induction (chan_keys g) as [|k ks IH]; simpl; [reflexivity|].
      change (csmap (ainsert k (chan_init V1 g k) (fold_right (fun k0 m => ainsert k0 (chan_init V1 g k0) m) [] ks)))
        with (amap cmap (ainsert k (chan_init V1 g k) (fold_right (fun k0 m => ainsert k0 (chan_init V1 g k0) m) [] ks))).
      rewrite amap_insert. change (amap cmap) with csmap. rewrite IH. f_equal.
      unfold cmap, chan_init. destruct (g_mode g); reflexivity.
    Qed.

    Lemma run_flat_sim : forall p a s,
      let r2 := run_flat V2 St ops2 exec2 sub2 sched p g (phi a) s in
      let r1 := run_flat V1 St ops1 exec1 sub1 sched p g a s in
      diverged (fst r2) \/ (omap (fst r1) = fst r2 /\ snd r1 = snd r2).
    Proof.
      intros p a s. cbv zeta. destruct Hg as [Hm He]. unfold run_flat, init_chans. rewrite Hm.
      rewrite <- init_chans_phi.
      pose proof (calc_next_phi g (init_chans_v0 V1 g) [(kSTART, a)] Hm) as Hc.
      change (amap phi [(kSTART, a)]) with [(kSTART, phi a)] in Hc.
      destruct (calc_next V2 ops2 g (csmap (init_chans_v0 V1 g)) [(kSTART, phi a)]) as [[cs2 r2]|e|].
      - destruct Hc as [cs1 [r1 [Hc1 [Hcs Hrr]]]]. rewrite Hc1. subst cs2 r2.
        rewrite amap_lookup. destruct (alookup kEND r1) as [v|].
        + right. simpl. split; reflexivity.
        + simpl. apply (iterate_sim p (loop_fuel g) (init_state V1 St p cs1 r1 s)).
      - destruct Hc as [Hc|Hc].
        + rewrite Hc. right. split; reflexivity.
        + left. simpl. unfold has_merr. simpl. rewrite Hc. reflexivity.
      - rewrite Hc. right. split; reflexivity.
    Qed.
  End Flat.

  (* ================= the whole nested run ================= *)
  Theorem run_nest_stream_sim :
    forall (exec1 : St -> path -> V1 -> res V1 * St) (exec2 : St -> path -> V2 -> res V2 * St) sched,
      (forall s p a, exec2 s p (phi a) = (rvmap (fst (exec1 s p a)), snd (exec1 s p a))) ->
      forall fuel F, (forall g, In g F -> pregel_graph g) ->
      forall p g a s, pregel_graph g ->
        let r2 := run_nest V2 St ops2 exec2 sched fuel F p g (phi a) s in
        let r1 := run_nest V1 St ops1 exec1 sched fuel F p g a s in
        diverged (fst r2) \/ (omap (fst r1) = fst r2 /\ snd r1 = snd r2).
  Proof.
    intros exec1 exec2 sched Hex fuel. induction fuel as [|f IH]; intros F HF p g a s Hg; cbv zeta.
    - right. simpl. split; reflexivity.
    - simpl. apply run_flat_sim; [exact Hg|exact Hex|].
      intros i q b s0. destruct (nth_error F i) as [g'|] eqn:E.
      + apply (IH F HF q g' b s0). apply HF. eapply nth_error_In. exact E.
      + right. simpl. split; reflexivity.
  Qed.
End StreamSim.

(* ================= the hypotheses are satisfiable: the value instance against itself ================= *)
(* With V1 = V2 = the harness values, phi = identity, the fan-in law says: a failing [tree_merge] fails with the
   duplicated-key or the type-mismatch class and never panics — the classes Corr/C01.v uses for
   [stream_incomparable]. *)
Definition tree_merr (e : N) : bool := N.eqb e eDupKey || N.eqb e eMergeType.

Lemma fold_err_stable : forall {A B} (f : res A -> B -> res A) (l : list B) e,
  (forall b, f (Err e) b = Err e) -> fold_left f l (Err e) = Err e.
Proof. intros A B f l e H. induction l as [|b l IH]; simpl; [reflexivity|]. rewrite H. exact IH. Qed.

Lemma merge_into_class : forall kvs acc,
  match merge_into acc kvs with Ok _ => True | Err e => e = eDupKey | Panic => False end.
Proof.
  unfold merge_into. intros kvs. 
  assert (G : forall (r : res (list (N * value))),
             match r with Ok _ => True | Err e => e = eDupKey | Panic => False end ->
             match fold_left (fun r kv => do a <- r; match alookup (fst kv) a with Some _ => Err eDupKey | None => Ok (ainsert (fst kv) (snd kv) a) end) kvs r
             with Ok _ => True | Err e => e = eDupKey | Panic => False end).
  { induction kvs as [|kv kvs IH]; intros r Hr; simpl; [exact Hr|]. apply IH.
    destruct r as [a|e|]; simpl; [|exact Hr|exact Hr]. destruct (alookup (fst kv) a); [reflexivity|exact I]. }
  intros acc. apply G. exact I.
Qed.

Lemma tree_merge_class : forall vs,
  match tree_merge vs with Ok _ => True | Err e => tree_merr e = true | Panic => False end.
Proof.
  intros vs. unfold tree_merge.
  assert (G : forall (r : res (list (N * value))),
             match r with Ok _ => True | Err e => tree_merr e = true | Panic => False end ->
             match fold_left (fun r kv => do a <- r; match snd kv with VMap kvs => merge_into a kvs | VNil => Ok a | VAtom _ => Err eMergeType end) vs r
             with Ok _ => True | Err e => tree_merr e = true | Panic => False end).
  { induction vs as [|kv vs IH]; intros r Hr; simpl; [exact Hr|]. apply IH.
    destruct r as [a|e|]; simpl; [|exact Hr|exact Hr]. destruct (snd kv) as [x| |kvs]; [reflexivity|exact I|].
    pose proof (merge_into_class kvs a) as Hm. destruct (merge_into a kvs); [exact I|subst; reflexivity|exact Hm]. }
  specialize (G (Ok []) I).
  destruct (fold_left _ vs (Ok [])); simpl; [exact I|exact G|exact G].
Qed.

Lemma amap_id : forall {A} (l : list (key * A)), amap (fun x => x) l = l.
Proof. intros A l. unfold amap. induction l as [|[k v] l IH]; simpl; [reflexivity|]. rewrite IH. reflexivity. Qed.

Lemma tree_identity_merge : forall l,
  match v_merge tree_ops (amap (fun x : value => x) l) with
  | Ok b => exists a, v_merge tree_ops l = Ok a /\ a = b
  | Err e => tree_merr e = true
  | Panic => False
  end.
Proof.
  intros l. rewrite amap_id. simpl. pose proof (tree_merge_class l) as H.
  destruct (tree_merge l) as [b|e|]; [exists b; split; reflexivity|exact H|exact H].
Qed.


(* ================= a second instance: a fan-in without the duplicated-key check ================= *)
(* What distinguishes the stream form at the level of the engine: the fan-in of streams does not check for
   duplicated keys (F-C04). [lenient_ops] is the value instance whose fan-in unites the maps, a later sender
   overwriting an earlier one, and ignores what is not a map. Wherever the checked fan-in succeeds the lenient
   one gives the same map, so by [run_nest_stream_sim] an engine with the lenient fan-in runs every forest of
   any-predecessor graphs exactly as the checked engine does, unless the checked run fails at a fan-in. *)
Definition lenient_into (acc : list (N * value)) (kvs : list (N * value)) : list (N * value) :=
  fold_left (fun a kv => ainsert (fst kv) (snd kv) a) kvs acc.

Definition lenient_merge (vs : list (key * value)) : res value :=
  Ok (VMap (fold_left (fun a kv => match snd kv with VMap kvs => lenient_into a kvs | _ => a end) vs [])).

Definition lenient_ops : vops value :=
  {| v_merge := lenient_merge; v_zero := VNil; v_wrap := fun k v => VMap [(k, v)]; v_norm := tree_norm; v_size := vsize |}.

Lemma merge_into_lenient : forall kvs acc m, merge_into acc kvs = Ok m -> lenient_into acc kvs = m.
Proof.
  unfold merge_into, lenient_into. induction kvs as [|kv kvs IH]; intros acc m H; simpl in *.
  - inversion H. reflexivity.
  - destruct (alookup (fst kv) acc).
    + rewrite fold_err_stable in H; [discriminate|reflexivity].
    + apply IH. exact H.
Qed.

Lemma tree_merge_lenient : forall vs b, tree_merge vs = Ok b -> lenient_merge vs = Ok b.
Proof.
  intros vs b H. unfold tree_merge in H. unfold lenient_merge.
  assert (G : forall acc m,
             fold_left (fun r kv => do a <- r; match snd kv with VMap kvs => merge_into a kvs | VNil => Ok a | VAtom _ => Err eMergeType end) vs (Ok acc) = Ok m ->
             fold_left (fun a kv => match snd kv with VMap kvs => lenient_into a kvs | _ => a end) vs acc = m).
  { clear H. induction vs as [|kv vs IH]; intros acc m H; simpl in *.
    - inversion H. reflexivity.
    - destruct (snd kv) as [x| |kvs].
      + rewrite fold_err_stable in H; [discriminate|reflexivity].
      + apply IH. exact H.
      + destruct (merge_into acc kvs) as [a'|e|] eqn:E.
        * rewrite (merge_into_lenient kvs acc a' E). apply IH. exact H.
        * rewrite fold_err_stable in H; [discriminate|reflexivity].
        * pose proof (merge_into_class kvs acc) as Hc. rewrite E in Hc. destruct Hc. }
  destruct (fold_left _ vs (Ok [])) as [m|e|] eqn:E; simpl in H; [|discriminate|discriminate].
  inversion H; subst. rewrite (G [] m E). reflexivity.
Qed.

Lemma lenient_merge_law : forall l,
  match v_merge tree_ops (amap (fun x : value => x) l) with
  | Ok b => exists a, v_merge lenient_ops l = Ok a /\ a = b
  | Err e => tree_merr e = true
  | Panic => False
  end.
Proof.
  intros l. rewrite amap_id. simpl. pose proof (tree_merge_class l) as H.
  destruct (tree_merge l) as [b|e|] eqn:E; [|exact H|exact H].
  exists b. split; [apply tree_merge_lenient; exact E|reflexivity].
Qed.

(* the engine with the unchecked fan-in against the checked engine, harness lambdas on both sides *)
Theorem lenient_engine_agrees : forall fails fuel F p g x,
  (forall g', In g' F -> pregel_graph g') -> pregel_graph g ->
  let r2 := run_nest value unit tree_ops (tree_exec fails) sched_first fuel F p g x tt in
  let r1 := run_nest value unit lenient_ops (tree_exec fails) sched_first fuel F p g x tt in
  diverged value tree_merr (fst r2) \/
  (omap value value (fun v => v) (fst r1) = fst r2 /\ snd r1 = snd r2).
Proof.
  intros fails fuel F p g x HF Hg.
  apply (run_nest_stream_sim value value unit lenient_ops tree_ops (fun v => v) tree_merr
           (fun a => eq_refl) (fun k a => eq_refl) (fun a => eq_refl) eq_refl lenient_merge_law
           (tree_exec fails) (tree_exec fails) sched_first).
  - intros s q a. unfold tree_exec.
    match goal with |- context [find ?f fails] => destruct (find f fails) as [[[[fp m] r] c]|] end; reflexivity.
  - exact HF.
  - exact Hg.
Qed.
