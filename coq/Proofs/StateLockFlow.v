(* Proofs/StateLockFlow.v — C11: the values the state handlers return are what the node and
   its successors receive. For every interleaving of Model/StateLockLTS.v: every critical
   section received the value the specification [exp_in] determines from what earlier
   handlers returned, and every register of every node holds the value determined the same
   way ([reg_ok]). *)
From Eino Require Import Base.Util Model.StateLock Model.StateLockLTS Proofs.StateLockLTS Proofs.StateLockOrder.
From Coq Require Import Lia.

Section Flow.
  Variables (S X : Type).
  Variable gen : nat -> S.
  Variable hfun : kind -> N -> X -> S -> X * S.
  Variable lout : N -> X -> X.
  Variable mrg : list X -> X.
  Variable f : forest.
  Variable x0 : X.

  Notation config := (config S X).
  Notation inst := (inst S X).
  Notation pstep := (pstep S X gen hfun lout mrg f x0).
  Notation preach := (preach S X gen hfun lout mrg f x0).
  Notation lookup := (lookup S X f).
  Notation new_inst := (new_inst S X gen).
  Notation fin := (fin S X).
  Notation ret := (ret S X).
  Notation is_in := (is_in S X mrg).
  Notation is_pre := (is_pre S X mrg).
  Notation is_bodyin := (is_bodyin S X mrg).
  Notation child_of := (child_of S X mrg).
  Notation is_out := (is_out S X lout mrg f).
  Notation is_final := (is_final S X lout mrg f).
  Notation exp_in := (exp_in S X lout mrg f).
  Notation is_stored := (is_stored S).
  Notation reg_ok := (reg_ok S X lout mrg f).

  Ltac inv H := inversion H; subst; clear H.

  (* ---------------------------------------------------------------- what only grows *)

  Definition ext (c c' : config) : Prop :=
    (exists l, c_trace c' = c_trace c ++ l) /\
    forall i J, nth_error (c_insts c) i = Some J ->
      exists J', nth_error (c_insts c') i = Some J' /\
                 i_run J' = i_run J /\ i_graph J' = i_graph J /\ i_parent J' = i_parent J /\ i_in J' = i_in J /\
                 forall n y, final_of S X J n = Some y -> final_of S X J' n = Some y.

  Lemma ext_refl_insts : forall (c c' : config),
    (exists l, c_trace c' = c_trace c ++ l) ->
    (forall i J, nth_error (c_insts c) i = Some J -> nth_error (c_insts c') i = Some J) -> ext c c'.
  Proof.
    intros c c' Ht Hi. split; auto. intros i J HJ. exists J. repeat split; auto.
  Qed.

  (* a move of node n of instance i whose old status was not final *)
  Lemma ext_moved : forall (c c' : config) i J n s s' q,
    (exists l, c_trace c' = c_trace c ++ l) ->
    nth_error (c_insts c) i = Some J -> get_ns S X J n = Some s ->
    (forall y, s <> mkNs (PFin y) None) ->
    c_insts c' = upd (c_insts c) i (set_doneq S X (set_ns S X J n s') q) ->
    ext c c'.
  Proof.
    intros c c' i J n s s' q Ht Ei Eg Hnf Hc. split; auto.
    intros i0 J0 H0. rewrite Hc. destruct (Nat.eq_dec i0 i).
    - subst i0. rewrite Ei in H0. inv H0.
      exists (set_doneq S X (set_ns S X J0 n s') q). split.
      + apply nth_upd_eq. eapply nth_some_lt; eauto.
      + repeat split; auto. intros n0 y Hy. unfold final_of in *.
        change (get_ns S X (set_doneq S X (set_ns S X J0 n s') q) n0) with (get_ns S X (set_ns S X J0 n s') n0).
        rewrite get_set_ns. destruct (N.eqb_spec n0 n); auto.
        subst n0. rewrite Eg in Hy. destruct s as [[] [|]]; try discriminate. inv Hy. exfalso. eapply Hnf; eauto.
    - exists J0. rewrite nth_upd_neq by auto. repeat split; auto.
  Qed.

  Lemma ext_new_inst : forall c r g G par inh x, ext c (new_inst c r g G par inh x).
  Proof.
    intros. apply ext_refl_insts.
    - exists []. rewrite new_inst_trace, app_nil_r. reflexivity.
    - intros i J HJ. unfold StateLockLTS.new_inst. destruct (g_state G); simpl;
      rewrite nth_error_app1; auto; eapply nth_some_lt; eauto.
  Qed.

  Lemma ext_trans : forall c1 c2 c3, ext c1 c2 -> ext c2 c3 -> ext c1 c3.
  Proof.
    intros c1 c2 c3 ((l1 & H1) & Hi1) ((l2 & H2) & Hi2). split.
    - exists (l1 ++ l2). rewrite H2, H1, app_assoc. reflexivity.
    - intros i J HJ. destruct (Hi1 _ _ HJ) as (J' & HJ' & ? & ? & ? & ? & Hf1).
      destruct (Hi2 _ _ HJ') as (J'' & HJ'' & ? & ? & ? & ? & Hf2).
      exists J''. repeat split; try congruence. auto.
  Qed.

  Lemma nil_ext : forall (c c' : config), c_trace c' = c_trace c -> exists l, c_trace c' = c_trace c ++ l.
  Proof. intros. exists []. rewrite app_nil_r. auto. Qed.

  Lemma pstep_ext : forall c ch c', pstep c ch = Some c' -> ext c c'.
  Proof.
    intros c ch c' H. destruct ch as [r|i n|i n|i n|i n|i n|o m].
    - apply pstep_start_inv in H. destruct H as (G & _ & ->). apply ext_new_inst.
    - apply pstep_acq_inv in H. destruct H as (J & a & p & k & x & o & r & El & Ek & Ex & Eo & Er & Eh & ->).
      apply lookup_inv in El. destruct El as (Ei & Eg & _).
      eapply (ext_moved c _ i J n _ _ (i_doneq J)); eauto.
      + apply nil_ext. reflexivity.
      + intros y Hy. inv Hy. discriminate.
      + reflexivity.
    - apply pstep_load_inv in H. destruct H as (J & a & p & o & r & El & Eo & Er & ->).
      apply lookup_inv in El. destruct El as (Ei & Eg & _).
      eapply (ext_moved c _ i J n _ _ (i_doneq J)); eauto.
      + apply nil_ext. reflexivity.
      + intros y Hy. inv Hy.
      + reflexivity.
    - apply pstep_store_inv in H.
      destruct H as (J & a & p & l & k & x & o & r & x' & s' & El & Ek & Ex & Eo & Er & Eh & ->).
      apply lookup_inv in El. destruct El as (Ei & Eg & _).
      eapply (ext_moved c _ i J n _ _ (i_doneq J)); eauto.
      + eexists. reflexivity.
      + intros y Hy. inv Hy.
      + reflexivity.
    - apply pstep_rel_inv in H. destruct H as (J & a & p & o & r & q & El & Eo & Er & ->).
      apply lookup_inv in El. destruct El as (Ei & Eg & _).
      eapply (ext_moved c _ i J n _ _ q); eauto.
      + apply nil_ext. reflexivity.
      + intros y Hy. inv Hy.
      + reflexivity.
    - apply pstep_adv_inv in H. destruct H as (J & a & p & El & En & [(p' & q & Hadv & ->)|(x & g & G & -> & Es & EG & ->)]).
      + apply lookup_inv in El. destruct El as (Ei & Eg & _).
        eapply (ext_moved c _ i J n _ _ q); eauto.
        * apply nil_ext. reflexivity.
        * intros y Hy. inv Hy. inv Hadv.
        * reflexivity.
      + apply lookup_inv in El. destruct El as (Ei & Eg & _).
        eapply ext_trans; [apply ext_new_inst|].
        assert (Ei' : nth_error (c_insts (new_inst c (i_run J) g G (Some i) (i_obj J) x)) i = Some J).
        { unfold StateLockLTS.new_inst. destruct (g_state G); simpl; rewrite nth_error_app1; auto; eapply nth_some_lt; eauto. }
        eapply (ext_moved _ _ i J n _ _ (i_doneq J)); eauto.
        * apply nil_ext. reflexivity.
        * intros y Hy. inv Hy.
        * reflexivity.
    - apply pstep_resume_inv in H. destruct H as (r & Er & Eh & ->).
      split; [apply nil_ext; reflexivity|].
      intros i J HJ. exists (remap S X o (List.length (c_objs c)) J). split.
      + unfold resumed; simpl. rewrite nth_error_map, HJ. reflexivity.
      + destruct (remap_static S X o (List.length (c_objs c)) J) as (? & ? & ? & ? & Hns & ?).
        repeat split; auto. intros n y Hy. unfold final_of, get_ns in *. rewrite Hns. auto.
  Qed.

  (* ---------------------------------------------------------------- monotonicity *)

  Lemma fin_mono : forall c c' i n y, ext c c' -> fin c i n y -> fin c' i n y.
  Proof.
    intros c c' i n y (_ & Hi) (J & HJ & Hf). destruct (Hi _ _ HJ) as (J' & HJ' & _ & _ & _ & _ & Hff).
    exists J'. auto.
  Qed.

  Lemma fins_mono : forall c c' i ps ys, ext c c' -> Forall2 (fin c i) ps ys -> Forall2 (fin c' i) ps ys.
  Proof. intros. induction H0; constructor; auto. eapply fin_mono; eauto. Qed.

  Lemma ret_mono : forall c c' i n k x, ext c c' -> ret c i n k x -> ret c' i n k x.
  Proof.
    intros c c' i n k x ((l & Ht) & _) (e & He & ?). exists e. split; auto. rewrite Ht. apply in_or_app. auto.
  Qed.

  Lemma is_in_mono : forall c c' i a x, ext c c' -> is_in c i a x -> is_in c' i a x.
  Proof.
    intros c c' i a x He (J & HJ & H). destruct (proj2 He _ _ HJ) as (J' & HJ' & _ & _ & _ & Hin & _).
    exists J'. split; auto. destruct (n_preds a).
    - congruence.
    - destruct H as (ys & Hys & ->). exists ys. split; auto. eapply fins_mono; eauto.
  Qed.

  Lemma is_pre_mono : forall c c' i a x, ext c c' -> is_pre c i a x -> is_pre c' i a x.
  Proof.
    intros. unfold StateLockLTS.is_pre in *. destruct (n_pre a); [eapply ret_mono|eapply is_in_mono]; eauto.
  Qed.

  Lemma is_bodyin_mono : forall c c' i a j x, ext c c' -> is_bodyin c i a j x -> is_bodyin c' i a j x.
  Proof.
    intros. destruct j; simpl in *; [eapply is_pre_mono|eapply ret_mono]; eauto.
  Qed.

  Lemma child_of_mono : forall c c' i a ci, ext c c' -> child_of c i a ci -> child_of c' i a ci.
  Proof.
    intros c c' i a ci He (CI & g & Hs & HC & Hp & Hg & Hpre).
    destruct (proj2 He _ _ HC) as (CI' & HC' & _ & Hg' & Hp' & Hin' & _).
    exists CI', g. repeat split; auto; try congruence. rewrite Hin'. eapply is_pre_mono; eauto.
  Qed.

  Lemma is_out_mono : forall c c' i a y, ext c c' -> is_out c i a y -> is_out c' i a y.
  Proof.
    intros c c' i a y He H. unfold StateLockLTS.is_out in *. destruct (n_sub a).
    - destruct H as (ci & G & ys & Hc & HG & Hys & ->). exists ci, G, ys. repeat split; auto.
      + eapply child_of_mono; eauto.
      + eapply fins_mono; eauto.
    - destruct H as (x & Hx & ->). exists x. split; auto. eapply is_bodyin_mono; eauto.
  Qed.

  Lemma is_final_mono : forall c c' i a y, ext c c' -> is_final c i a y -> is_final c' i a y.
  Proof.
    intros. unfold StateLockLTS.is_final in *. destruct (n_post a); [eapply ret_mono|eapply is_out_mono]; eauto.
  Qed.

  Lemma exp_in_mono : forall c c' i a k x, ext c c' -> exp_in c i a k x -> exp_in c' i a k x.
  Proof.
    intros. destruct k; simpl in *; [eapply is_in_mono|eapply is_out_mono|eapply is_bodyin_mono]; eauto.
  Qed.

  (* ---------------------------------------------------------------- the invariant *)

  Lemma reg_ok_mono : forall c c' i a p cs, ext c c' -> reg_ok c i a p cs -> reg_ok c' i a p cs.
  Proof.
    intros. destruct p; simpl in *; auto;
    try (destruct (is_stored cs)); eauto using ret_mono, is_in_mono, is_pre_mono, is_bodyin_mono,
      child_of_mono, is_out_mono, is_final_mono.
  Qed.

  Definition entry_ok (c : config) (e : tentry S X) : Prop :=
    (exists J G, nth_error (c_insts c) (t_inst e) = Some J /\ nth_error f (i_graph J) = Some G /\
                 find_in_graph (n_id (t_node e)) (g_nodes G) = Some (t_node e)) /\
    exp_in c (t_inst e) (t_node e) (t_kind e) (t_x e) /\
    t_out e = fst (hfun (t_kind e) (n_id (t_node e)) (t_x e) (t_seen e)).

  Lemma entry_ok_mono : forall c c' e, ext c c' -> entry_ok c e -> entry_ok c' e.
  Proof.
    intros c c' e He ((J & G & HJ & HG & Hf) & Hx & Ho). split; [|split; auto].
    - destruct (proj2 He _ _ HJ) as (J' & HJ' & _ & Hg & _). exists J', G. rewrite Hg. auto.
    - eapply exp_in_mono; eauto.
  Qed.

  Definition regs_ok (c : config) : Prop :=
    forall i J G n a s,
       nth_error (c_insts c) i = Some J -> nth_error f (i_graph J) = Some G ->
       find_in_graph n (g_nodes G) = Some a -> get_ns S X J n = Some s ->
       reg_ok c i a (ns_pos s) (ns_cs s).

  Definition entries_ok (c : config) : Prop := forall e, In e (c_trace c) -> entry_ok c e.

  Definition flow_inv (c : config) : Prop := entries_ok c /\ regs_ok c.

  Lemma reg_ok_cs : forall c i a p cs cs', is_stored cs = is_stored cs' -> reg_ok c i a p cs -> reg_ok c i a p cs'.
  Proof. intros. destruct p; simpl in *; auto; rewrite <- H; auto. Qed.

  Lemma entries_same_trace : forall c c', ext c c' -> c_trace c' = c_trace c -> entries_ok c -> entries_ok c'.
  Proof. intros c c' He Ht H e Hin. rewrite Ht in Hin. eapply entry_ok_mono; eauto. Qed.

  Lemma regs_moved : forall (c c' : config) i J G n a s s' q,
    ext c c' ->
    nth_error (c_insts c) i = Some J -> nth_error f (i_graph J) = Some G ->
    find_in_graph n (g_nodes G) = Some a -> get_ns S X J n = Some s ->
    c_insts c' = upd (c_insts c) i (set_doneq S X (set_ns S X J n s') q) ->
    regs_ok c ->
    reg_ok c' i a (ns_pos s') (ns_cs s') ->
    regs_ok c'.
  Proof.
    intros c c' i J G n a s s' q He Ei EG Ef Eg Hc IH Hnew.
    intros i0 J0 G0 n0 a0 s0 Hi HG Hf Hg. rewrite Hc in Hi.
    destruct (moved_cases _ _ _ _ _ _ _ _ _ _ _ _ Ei Hi Hg) as [(-> & -> & -> & Hs)|(J1 & H1 & H2 & Hs & Hne)].
    - destruct Hs as (_ & Hgr & _). rewrite <- Hgr in HG. rewrite EG in HG. inv HG.
      rewrite Ef in Hf. inv Hf. exact Hnew.
    - destruct Hs as (_ & Hgr & _). rewrite <- Hgr in HG. eapply reg_ok_mono; eauto.
  Qed.

  Lemma regs_new_inst : forall (c : config) r g G par inh x,
    regs_ok c -> regs_ok (new_inst c r g G par inh x).
  Proof.
    intros c r g G par inh x IH i J G0 n a s Hi HG Hf Hg.
    apply new_inst_insts in Hi. destruct Hi as [Hi|[-> ->]].
    - eapply reg_ok_mono; [apply ext_new_inst|]. eapply IH; eauto.
    - unfold get_ns in Hg; simpl in Hg. apply init_ns_cs in Hg. subst s. exact I.
  Qed.

  Lemma omapM_fins : forall (c : config) i J ps ys,
    nth_error (c_insts c) i = Some J -> omapM (final_of S X J) ps = Some ys -> Forall2 (fin c i) ps ys.
  Proof.
    intros c i J ps. induction ps as [|p ps IH]; simpl; intros ys Hi H.
    - inv H. constructor.
    - destruct (final_of S X J p) eqn:E1; [|discriminate].
      destruct (omapM (final_of S X J) ps) eqn:E2; [|discriminate]. inv H.
      constructor; auto. exists J. auto.
  Qed.

  Lemma omapM_fins_map : forall (c : config) i J (l : list node) ys,
    nth_error (c_insts c) i = Some J -> omapM (fun s => final_of S X J (n_id s)) l = Some ys ->
    Forall2 (fin c i) (map n_id l) ys.
  Proof.
    intros c i J l. induction l as [|p ps IH]; simpl; intros ys Hi H.
    - inv H. constructor.
    - destruct (final_of S X J (n_id p)) eqn:E1; [|discriminate].
      destruct (omapM (fun s => final_of S X J (n_id s)) ps) eqn:E2; [|discriminate]. inv H.
      constructor; auto. exists J. auto.
  Qed.

  Lemma flow_step : forall c ch c',
    order_inv S X f c -> flow_inv c -> pstep c ch = Some c' -> flow_inv c'.
  Proof.
    intros c ch c' Hord (IH1 & IH2) H. pose proof (pstep_ext _ _ _ H) as He.
    destruct ch as [r|i n|i n|i n|i n|i n|o m].
    - (* start *)
      apply pstep_start_inv in H. destruct H as (G0 & _ & ->). split.
      + eapply entries_same_trace; eauto. apply new_inst_trace.
      + apply regs_new_inst; auto.
    - (* acquire *)
      apply pstep_acq_inv in H. destruct H as (J & a & p & k & x & o & r & El & Ek & Ex & Eo & Er & Eh & ->).
      apply lookup_inv in El. destruct El as (Ei & Eg & G1 & EG1 & Ef1). split.
      + eapply entries_same_trace; eauto.
      + eapply (regs_moved c _ i J G1 n a _ _ (i_doneq J)); eauto; [reflexivity|]. simpl.
        eapply reg_ok_mono; eauto. eapply reg_ok_cs; [|exact (IH2 _ _ _ _ _ _ Ei EG1 Ef1 Eg)]. reflexivity.
    - (* load *)
      apply pstep_load_inv in H. destruct H as (J & a & p & o & r & El & Eo & Er & ->).
      apply lookup_inv in El. destruct El as (Ei & Eg & G1 & EG1 & Ef1). split.
      + eapply entries_same_trace; eauto.
      + eapply (regs_moved c _ i J G1 n a _ _ (i_doneq J)); eauto; [reflexivity|]. simpl.
        eapply reg_ok_mono; eauto. eapply reg_ok_cs; [|exact (IH2 _ _ _ _ _ _ Ei EG1 Ef1 Eg)]. reflexivity.
    - (* store *)
      apply pstep_store_inv in H.
      destruct H as (J & a & p & l & k & x & o & r & x' & s' & El & Ek & Ex & Eo & Er & Eh & ->).
      apply lookup_inv in El. destruct El as (Ei & Eg & G1 & EG1 & Ef1).
      pose proof (find_in_graph_id _ _ _ Ef1) as Hid.
      pose proof (IH2 _ _ _ _ _ _ Ei EG1 Ef1 Eg) as Hreg. simpl in Hreg.
      set (e := mkT o i a k x l x').
      assert (Hin : In e (c_trace (set_inst S X (add_trace S X (set_obj S X c o (with_val S r s')) e) i
                                    (set_ns S X J n (mkNs (set_x X p x') (Some CsStored)))))).
      { simpl. apply in_or_app. right. left. reflexivity. }
      assert (Hret : ret (set_inst S X (add_trace S X (set_obj S X c o (with_val S r s')) e) i
                                    (set_ns S X J n (mkNs (set_x X p x') (Some CsStored)))) i (n_id a) k x').
      { exists e. repeat split; auto. }
      split.
      + intros e0 He0. simpl in He0. apply in_app_or in He0. destruct He0 as [He0|[<-|[]]].
        * eapply entry_ok_mono; eauto.
        * split; [|split].
          -- destruct (proj2 He _ _ Ei) as (J' & HJ' & _ & Hg & _). exists J', G1. simpl. rewrite Hg, Hid. auto.
          -- simpl. eapply exp_in_mono; eauto.
             apply next_cs_some_cases in Ek. destruct p; simpl in *; try contradiction.
             ++ destruct Ek as (_ & ->). inv Ex. exact Hreg.
             ++ destruct Ek as (_ & _ & ->). inv Ex. exact Hreg.
             ++ destruct Ek as (_ & ->). inv Ex. exact Hreg.
          -- simpl. rewrite Eh. reflexivity.
      + eapply (regs_moved c _ i J G1 n a _ _ (i_doneq J)); eauto; [reflexivity|]. simpl.
        apply next_cs_some_cases in Ek. destruct p; simpl in *; try contradiction.
        * destruct Ek as (_ & ->). exact Hret.
        * destruct Ek as (_ & _ & ->). exact Hret.
        * destruct Ek as (_ & ->). exact Hret.
    - (* release *)
      apply pstep_rel_inv in H. destruct H as (J & a & p & o & r & q & El & Eo & Er & ->).
      apply lookup_inv in El. destruct El as (Ei & Eg & G1 & EG1 & Ef1).
      pose proof (IH2 _ _ _ _ _ _ Ei EG1 Ef1 Eg) as Hreg. simpl in Hreg.
      destruct (Hord _ _ _ _ _ _ Ei EG1 Ef1 Eg) as (_ & Hwf). simpl in Hwf.
      split.
      + eapply entries_same_trace; eauto.
      + eapply (regs_moved c _ i J G1 n a _ _ q); eauto; [reflexivity|]. simpl.
        destruct p; simpl in *; try discriminate.
        * assert (Hp : n_pre a = true) by (apply Hwf; discriminate).
          unfold StateLockLTS.is_pre. rewrite Hp. eapply ret_mono; eauto.
        * eapply ret_mono; eauto.
        * destruct Hwf; discriminate.
        * assert (Hp : n_post a = true) by (apply Hwf; discriminate).
          unfold StateLockLTS.is_final. rewrite Hp. eapply ret_mono; eauto.
    - (* other moves *)
      apply pstep_adv_inv in H. destruct H as (J & a & p & El & En & [(p' & q & Hadv & ->)|(x & g & G2 & -> & Es & EG2 & ->)]).
      + apply lookup_inv in El. destruct El as (Ei & Eg & G1 & EG1 & Ef1).
        pose proof (IH2 _ _ _ _ _ _ Ei EG1 Ef1 Eg) as Hreg. simpl in Hreg.
        destruct (Hord _ _ _ _ _ _ Ei EG1 Ef1 Eg) as (_ & Hwf). simpl in Hwf.
        split.
        * eapply entries_same_trace; eauto.
        * eapply (regs_moved c _ i J G1 n a _ _ q); eauto; [reflexivity|]. simpl.
          apply next_cs_none_cases in En.
          eapply reg_ok_mono; [exact He|].
          inv Hadv; simpl in *.
          -- exists J. split; auto. rewrite H. reflexivity.
          -- exists J. split; auto. destruct (n_preds a) eqn:Ep; [congruence|].
             exists ys. split; auto. eapply omapM_fins; eauto.
          -- unfold StateLockLTS.is_pre. rewrite En. exact Hreg.
          -- exact Hreg.
          -- destruct Hwf as (Hs & Hle & _). destruct En as [En|En]; [congruence|].
             assert (j = n_ps a) by lia. subst j.
             unfold StateLockLTS.is_out. rewrite Hs. exists x. split; auto.
          -- destruct Hreg as (CI0 & g & Hs & HC & Hp & Hg & Hpre).
             rewrite H in HC. inv HC.
             unfold StateLockLTS.is_out. rewrite Hs. exists ci, CG, ys. repeat split; auto.
             ++ exists CI0, (i_graph CI0). repeat split; auto.
             ++ eapply omapM_fins_map; eauto.
          -- unfold StateLockLTS.is_final. rewrite En. exact Hreg.
      + apply lookup_inv in El. destruct El as (Ei & Eg & G1 & EG1 & Ef1).
        pose proof (IH2 _ _ _ _ _ _ Ei EG1 Ef1 Eg) as Hreg. simpl in Hreg.
        set (c1 := new_inst c (i_run J) g G2 (Some i) (i_obj J) x).
        assert (Ei' : nth_error (c_insts c1) i = Some J).
        { unfold c1, StateLockLTS.new_inst. destruct (g_state G2); simpl; rewrite nth_error_app1; auto; eapply nth_some_lt; eauto. }
        assert (He1 : ext c c1) by apply ext_new_inst.
        split.
        * eapply entries_same_trace; eauto. simpl. apply new_inst_trace.
        * eapply (regs_moved c1 _ i J G1 n a _ _ (i_doneq J)); eauto.
          -- eapply (ext_moved _ _ i J n _ _ (i_doneq J)); eauto.
             ++ apply nil_ext. reflexivity.
             ++ intros y Hy. inv Hy.
             ++ reflexivity.
          -- reflexivity.
          -- apply regs_new_inst; auto.
          -- simpl.
             assert (Hlen : (i < List.length (c_insts c))%nat) by (eapply nth_some_lt; eauto).
             exists (mkInst (i_run J) g (Some i) (if g_state G2 then Some (List.length (c_objs c)) else i_obj J) x (init_ns S X G2) []), g.
             repeat split; auto.
             ++ simpl. rewrite nth_upd_neq by lia.
                unfold c1, StateLockLTS.new_inst. destruct (g_state G2); simpl; apply nth_app_new.
             ++ simpl. eapply is_pre_mono; eauto.
    - (* resume *)
      apply pstep_resume_inv in H. destruct H as (r & Er & Eh & ->). split.
      + eapply entries_same_trace; eauto.
      + intros i J G n a s Hi HG Hf Hg.
        apply resumed_insts in Hi. destruct Hi as (J1 & Hi & ->).
        destruct (remap_static S X o (List.length (c_objs c)) J1) as (_ & Hgr & _ & _ & Hns & _).
        rewrite Hgr in HG. unfold get_ns in Hg. rewrite Hns in Hg.
        eapply reg_ok_mono; [exact He|]. eapply IH2; eauto.
  Qed.

  Lemma flow_init : flow_inv (init_cfg S X).
  Proof. split; [intros e []|intros i J G n a s H; destruct i; discriminate]. Qed.

  Lemma flow_reach : forall c, preach c -> flow_inv c.
  Proof.
    induction 1; [apply flow_init|]. eapply flow_step; eauto. apply (order_reach S X gen hfun lout mrg f x0 c H).
  Qed.

  Theorem handler_values_flow_preach : forall c, preach c ->
    (forall e, In e (c_trace c) ->
       exp_in c (t_inst e) (t_node e) (t_kind e) (t_x e) /\
       t_out e = fst (hfun (t_kind e) (n_id (t_node e)) (t_x e) (t_seen e))) /\
    (forall i J G n a s,
       nth_error (c_insts c) i = Some J -> nth_error f (i_graph J) = Some G ->
       find_in_graph n (g_nodes G) = Some a -> get_ns S X J n = Some s ->
       reg_ok c i a (ns_pos s) (ns_cs s)).
  Proof.
    intros c Hr. destruct (flow_reach c Hr) as (H1 & H2). split; [|exact H2].
    intros e He. destruct (H1 e He) as (_ & Hx & Ho). auto.
  Qed.
End Flow.
