(* Proofs/GenAgreeC04Conv.v — property C04, translator tie (extractor c04conv, Gen/C04Conv.v):

   * schema/stream.go streamReaderWithConvert.recv, translated statement by statement, read to
     io.EOF is the item-wise [s_convert] of Model/C04GenLib.v: chunks are converted, chunks
     whose conversion answers ErrNoValue vanish, a conversion error becomes an error item,
     error items of the source pass, nothing is lost and nothing comes after io.EOF;
   * the convert functions that compose/stream_reader.go and compose/generic_helper.go hand to
     StreamReaderWithConvert, translated statement by statement, give exactly the stream
     operations of Model/StreamOps.v that the C04 theorems are about:
       withKey                  -> s_withKey          (output key, stream form)
       defaultStreamMapFilter   -> s_keyFilter        (input key, stream form)
       defaultStreamConverter   -> s_check            (run-time type check, stream form)
       defaultValueChecker      -> v_check            (run-time type check, value form)
       toAnyStreamReader        -> the identity. *)
From Eino Require Import Base.Util Model.Paradigm Model.StreamOps Model.C04GenLib.
From Eino Require Gen.C04Conv.

Section Recv.
  Variables X Y : Type.
  Variable f : X -> conv Y.
  Local Notation R := (Gen.C04Conv.convert_recv f).

  Lemma recv_nil : R [] = (REOF, []).
  Proof. reflexivity. Qed.
  Lemma recv_bad : forall e s, R (Bad e :: s) = (RErr e, s).
  Proof. reflexivity. Qed.
  Lemma recv_val : forall x s,
    R (Val x :: s) = match f x with CVal y => (RVal y, s) | CNoValue => R s | CErr e => (RErr e, s) end.
  Proof. intros x s. unfold Gen.C04Conv.convert_recv at 1. simpl. destruct (f x); reflexivity. Qed.

  (* reading the converted reader to io.EOF: any number of calls beyond the length of the
     source gives the same items (the bound of [read_all] is never reached) *)
  Theorem gen_convert_recv_agrees : forall (s : stream X) (fuel : nat),
    (List.length s < fuel)%nat -> read_all fuel R s = s_convert f s.
  Proof.
    induction s as [|[x|e] s IH]; intros fuel Hf; destruct fuel as [|fuel]; try (simpl in Hf; lia).
    - reflexivity.
    - simpl in Hf. unfold s_convert. cbn [flat_map conv_item]. fold (s_convert f s).
      cbn [read_all]. rewrite recv_val. destruct (f x) as [y| |e].
      + cbn [app]. f_equal. apply IH. lia.
      + cbn [app]. rewrite <- (IH (S fuel)) by lia. reflexivity.
      + cbn [app]. f_equal. apply IH. lia.
    - simpl in Hf. unfold s_convert. cbn [flat_map conv_item app]. fold (s_convert f s).
      cbn [read_all]. rewrite recv_bad. f_equal. apply IH. lia.
  Qed.

  Corollary gen_convert_reader : forall s : stream X, read_all (S (List.length s)) R s = s_convert f s.
  Proof. intro s. apply gen_convert_recv_agrees. lia. Qed.
End Recv.

(* a convert function written for map chunks, on the chunk universe of the model (a stream of
   strings cannot be unpacked as a stream of maps: unpackStreamReader fails) *)
Definition on_map (g : amap -> conv val) (x : val) : conv val :=
  match x with VM m => g m | VS _ => CErr e_type end.

Theorem gen_withKey_agrees : forall k s,
  s_convert (Gen.C04Conv.withKey_convert k) s = s_withKey k s.
Proof.
  intros k s. unfold s_convert, s_withKey. induction s as [|[[x|m]|e] s IH]; simpl; try reflexivity; f_equal; exact IH.
Qed.

Theorem gen_mapFilter_agrees : forall k s,
  s_convert (on_map (Gen.C04Conv.mapFilter_convert (fun _ => true) k)) s = s_keyFilter k s.
Proof.
  intros k s. unfold s_convert, s_keyFilter. induction s as [|[[x|m]|e] s IH]; simpl; try reflexivity; try (f_equal; exact IH).
  unfold Gen.C04Conv.mapFilter_convert, assert_ty. destruct (m_get k m); simpl; try (f_equal; exact IH); exact IH.
Qed.

(* with a type test that fails, the filter reports an error item (the model's streams are
   typed by construction: the value under an input key has the consumer's type) *)
Theorem gen_mapFilter_mistyped : forall has_ty k m v,
  m_get k m = Some v -> has_ty v = false ->
  Gen.C04Conv.mapFilter_convert has_ty k m = CErr e_type.
Proof. intros has_ty k m v H1 H2. unfold Gen.C04Conv.mapFilter_convert, assert_ty. now rewrite H1, H2. Qed.

Definition ty_is (want_map : bool) (x : val) : bool := Bool.eqb (is_map x) want_map.

Theorem gen_streamConverter_agrees : forall want s,
  s_convert (Gen.C04Conv.streamConverter_convert (ty_is want)) s = s_check want s.
Proof.
  intros want s. unfold s_convert, s_check. induction s as [|[x|e] s IH]; simpl; try reflexivity; try (f_equal; exact IH).
  unfold Gen.C04Conv.streamConverter_convert, assert_ty, ty_is.
  destruct (Bool.eqb (is_map x) want); simpl; f_equal; exact IH.
Qed.

Theorem gen_valueChecker_agrees : forall want x,
  Gen.C04Conv.valueChecker (ty_is want) x = v_check want x.
Proof.
  intros want x. unfold Gen.C04Conv.valueChecker, assert_ty, ty_is, v_check.
  destruct (Bool.eqb (is_map x) want); reflexivity.
Qed.

Theorem gen_toAny_agrees : forall s : stream val, s_convert Gen.C04Conv.toAny_convert s = s.
Proof.
  intro s. unfold s_convert. induction s as [|[x|e] s IH]; simpl; try reflexivity; f_equal; exact IH.
Qed.

(* non-vacuity: a reader over {aa:"x"}, {ab:"y"}, error 7, {aa:"z"} filtered on the key aa *)
Example gen_filter_reader :
  let s := [Val (VM [(kstr 0, "x"%string)]); Val (VM [(kstr 1, "y"%string)]); Bad 7%N; Val (VM [(kstr 0, "z"%string)])] in
  read_all 5 (Gen.C04Conv.convert_recv (on_map (Gen.C04Conv.mapFilter_convert (fun _ => true) 0%N))) s
  = [Val (VS "x"%string); Bad 7%N; Val (VS "z"%string)].
Proof. reflexivity. Qed.
