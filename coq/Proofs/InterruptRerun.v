(* Proofs/InterruptRerun.v — InterruptAndRerun is transparent in the model the correspondence
   evaluates: flat graph in any-predecessor mode (Pregel channels of Model/Graph.v), lambda nodes with
   arbitrary rerun tables ([lambda_exec]), the harness's state pre-handler ([pre_fn]) (owner: C05). *)
From Eino Require Import Base.Util Model.Graph Model.RunLoop Model.Interrupt
     Proofs.RunLoop Proofs.RunLoopRerun Proofs.InterruptChan Proofs.InterruptChanPregel Proofs.Interrupt.
From Coq Require Import Permutation.
Open Scope N_scope.

(* the graph has a state, and every node that may ask for a rerun has the rebuilding pre-handler
   (the property's proviso: the re-run starts from the input its pre-handler rebuilds from state) *)
Definition rerun_ok (g : gspec) : Prop :=
  gs_state g = true /\ forall k l, nlist_get k (gs_rerun g) = Some l -> memN k (gs_st g) = true.

(* the node bodies of a flat graph: every node is a lambda *)
Definition lam_ex (g : gspec) (k : N) (cp : option ncp) (v : value) (e : env) : tex * env := lambda_exec g k v e.

Definition has_state (s : gst) : Prop := exists st, s = Some st.

Section RerunInst.
  Variable g : gspec.
  Hypothesis H_ok : rerun_ok g.
  Let gr := gs_graph g.

  Lemma lambda_exec_shape : forall k v e,
    (exists e', lambda_exec g k v e = (TDone (lam_body g k v), e')) \/
    (memN k (gs_st g) = true /\ exists e', lambda_exec g k v e = (TRerun, e')).
  Proof.
    intros k v e. unfold lambda_exec.
    destruct (nlist_get k (gs_rerun g)) as [l|] eqn:Hl.
    - destruct (memN _ l) eqn:Hm.
      + right. split; [destruct H_ok as [_ H]; eapply H; eauto|]. eexists; reflexivity.
      + left. eexists; reflexivity.
    - left. eexists; reflexivity.
  Qed.

  Lemma pre_fn_has_state : forall k v s, has_state s -> has_state (snd (pre_fn g k v s)).
  Proof.
    intros k v s [st ->]. unfold pre_fn.
    destruct (gs_state g && memN k (gs_st g)); [|eexists; reflexivity].
    destruct (is_empty v); simpl; eexists; reflexivity.
  Qed.

  Definition saved_or_nil (st : gstate) (k : N) : value :=
    match nlist_get k (st_saved st) with Some x => x | None => VNil end.

  Lemma pre_fn_head : forall k v st,
    exists v1 st', pre_fn g k v (Some st) = (v1, Some st') /\
      (forall k', k' <> k -> nlist_get k' (st_saved st') = nlist_get k' (st_saved st)) /\
      (memN k (gs_st g) = true -> saved_or_nil st' k = v1).
  Proof.
    intros k v st. destruct H_ok as [Hst _]. unfold pre_fn. rewrite Hst. simpl.
    destruct (memN k (gs_st g)) eqn:Hm.
    - destruct (is_empty v).
      + eexists _, st. split; [reflexivity|]. split; auto.
      + eexists _, _. split; [reflexivity|]. simpl. split.
        * intros k' Hk. rewrite alookup_ainsert. destruct (N.eqb k' k) eqn:E; auto.
          apply N.eqb_eq in E. congruence.
        * intros _. unfold saved_or_nil; simpl. rewrite alookup_ainsert, N.eqb_refl. reflexivity.
    - eexists _, st. split; [reflexivity|]. split; auto. discriminate.
  Qed.

  (* the pre-handlers of one step: the state keeps, for every stamping node of the step, the input it
     handed on; the saved inputs of other nodes are untouched *)
  Lemma run_pres_saved : forall (ts : list (@task value ncp)) st,
    NoDup (map t_key ts) -> Forall fresh_task ts ->
    exists st1, snd (run_pres (pre_fn g) ts (Some st)) = Some st1 /\
      (forall k, ~ In k (map t_key ts) -> nlist_get k (st_saved st1) = nlist_get k (st_saved st)) /\
      (forall t', In t' (fst (run_pres (pre_fn g) ts (Some st))) -> memN (t_key t') (gs_st g) = true ->
         saved_or_nil st1 (t_key t') = t_in t').
  Proof.
    induction ts as [|t ts IH]; intros st Hn Hf.
    - exists st. simpl. repeat split; auto. intros t' [].
    - inversion Hn as [|? ? Hnot Hn']; subst. inversion Hf as [|? ? [Hsk Hcp] Hf']; subst.
      destruct (pre_fn_head (t_key t) (t_in t) st) as (v1 & st' & Hp & Hfr & Hsv).
      destruct (IH st' Hn' Hf') as (st1 & Hs1 & Hfr1 & Hsv1).
      cbn [run_pres]. rewrite Hsk, Hp.
      destruct (run_pres (pre_fn g) ts (Some st')) as [rest gs2] eqn:Hr. cbn [fst snd] in *.
      exists st1. split; [exact Hs1|]. split.
      + intros k Hk. simpl in Hk. rewrite Hfr1 by tauto. apply Hfr. intro; subst; tauto.
      + intros t' [Ht'|Ht'] Hm.
        * subst t'. cbn [t_key t_in] in *. unfold saved_or_nil. rewrite Hfr1 by exact Hnot.
          apply Hsv. exact Hm.
        * apply Hsv1; auto.
  Qed.

  Lemma pre_fn_rebuild : forall (ts : list (@task value ncp)) gs,
    has_state gs -> NoDup (map t_key ts) -> Forall fresh_task ts ->
    forall t', In t' (fst (run_pres (pre_fn g) ts gs)) -> memN (t_key t') (gs_st g) = true ->
      pre_fn g (t_key t') VNil (snd (run_pres (pre_fn g) ts gs)) = (t_in t', snd (run_pres (pre_fn g) ts gs)).
  Proof.
    intros ts gs [st ->] Hn Hf t' Hin Hm.
    destruct (run_pres_saved ts st Hn Hf) as (st1 & Hs1 & _ & Hsv).
    rewrite Hs1. unfold pre_fn. destruct H_ok as [Hst _]. rewrite Hst, Hm. simpl.
    specialize (Hsv t' Hin Hm). unfold saved_or_nil in Hsv. rewrite Hsv. reflexivity.
  Qed.

  (* ---------------- the theorem for the model ---------------- *)
  Lemma rerun_equiv_model_l : forall gi x e n fuelU cs0 vU lU cos e' cos' co,
    g_mode gr = Pregel -> g_eager gr = false ->
    init_chans value gr = Ok cs0 ->
    start VNil (ifold gr) (igetr gr) (pre_fn g) (execU (SCP := ncp) (SINFO := ninfo) (lam_body g)) [] [] fuelU
          cs0 (gs0 g) x tt = (ODone vU, lU, tt) ->
    (fuelU <= seg_fuel gr)%nat ->
    drive (fun c : cpt => c) (fun c => Some c) (seg_fresh (lam_ex g) gi g x) (seg_resumed (lam_ex g) gi g)
          (fun _ e => e) true n 0 (fun _ s => s) None e = (cos, e') ->
    cos = cos' ++ [co] ->
    is_interrupt (co_out co) \/
    (co_out co = ODone vU /\ Permutation (good (all_logs cos)) lU).
  Proof.
    intros gi x e n fuelU cs0 vU lU cos e' cos' co Hm He Hi HU Hle Hd Hcos.
    rewrite (drive_ext (fun c : cpt => c) (fun c => Some c) (seg_fresh (lam_ex g) gi g x)
               (start VNil (ifold gr) (igetr gr) (pre_fn g) (lam_ex g)
                      (gs_before g) (gs_after g) (seg_fuel gr) cs0 (gs0 g) x)
               (seg_resumed (lam_ex g) gi g)
               (resume VNil (ifold gr) (igetr gr) (pre_fn g) (lam_ex g)
                       (gs_before g) (gs_after g) (seg_fuel gr))) in Hd.
    - assert (Hex : forall k v e0, (exists e1, lam_ex g k None v e0 = (TDone (lam_body g k v), e1)) \/
                                   (memN k (gs_st g) = true /\ exists e1, lam_ex g k None v e0 = (TRerun, e1)))
        by (intros; apply lambda_exec_shape).
      assert (H1 : forall cs l cs', pinv cs -> ifold gr cs l = Ok cs' -> pinv cs')
        by (intros; eapply (ifold_pinv gr); eauto).
      assert (H2 : forall cs cs' r, pinv cs -> igetr gr cs = Ok (cs', r) -> pinv cs')
        by (intros; eapply (igetr_pinv gr); eauto).
      assert (H3 : forall cs, pinv cs -> ifold gr cs [] = Ok cs) by (intros; apply ifold_nil).
      assert (H4 : forall cs cs' r, pinv cs -> igetr gr cs = Ok (cs', r) -> igetr gr cs' = Ok (cs', [])).
      { intros cs cs' r _ Hg. eapply igetr_idem; eauto. unfold chan_inv. fold gr. rewrite Hm. exact I. }
      assert (H5 : forall cs cs' r, pinv cs -> igetr gr cs = Ok (cs', r) -> NoDup (map fst r))
        by (intros; eapply (igetr_nodup gr); eauto).
      assert (H6 : forall cs A B cs1, pinv cs -> ifold gr cs A = Ok cs1 -> ifold gr cs (A ++ B) = ifold gr cs1 B)
        by (intros; apply ifold_app_pregel; auto).
      assert (H7 : forall cs A B r, pinv cs -> ifold gr cs (A ++ B) = Ok r -> exists cs1, ifold gr cs A = Ok cs1)
        by (intros; eapply ifold_prefix_pregel; eauto).
      assert (H8 : forall cs A B r, pinv cs -> NoDup (map fst A) -> Permutation A B ->
                   ifold gr cs A = Ok r -> ifold gr cs B = Ok r)
        by (intros; eapply ifold_perm_pregel; eauto).
      assert (Hser : forall c : cpt, (fun c : cpt => Some c) ((fun c : cpt => c) c) = Some c) by reflexivity.
      assert (Hp0 : pinv cs0) by (eapply init_chans_pinv; eauto).
      assert (Hg0 : has_state (gs0 g)) by (unfold gs0; destruct H_ok as [-> _]; eexists; reflexivity).
      exact (rerun_equiv_l VNil (ifold gr) (igetr gr) (pre_fn g) (lam_body g) (fun k => memN k (gs_st g) = true)
               (lam_ex g) (gs_before g) (gs_after g) Hex pinv H1 H2 H3 H4 H5 H6 H7 H8
               has_state pre_fn_has_state pre_fn_rebuild (fun c : cpt => c) (fun c => Some c) Hser
               (seg_fuel gr) cs0 (gs0 g) x fuelU vU lU n e cos e' cos' co Hp0 Hg0 HU Hle Hd Hcos).
    - intros e0. apply (seg_fresh_batch (lam_ex g) gi g cs0 x e0 He Hi).
    - intros sm c e0. apply (seg_resumed_batch (lam_ex g) gi g sm c e0 He).
  Qed.
End RerunInst.

(* on a lambda node the node bodies the correspondence evaluates are [lambda_exec] *)
Lemma node_exec_lambda : forall d F g k cpo v e n,
  find_node (gs_graph g) k = Some n -> (forall j, n_kind n <> KSub j) -> nlist_get k (gs_inkey g) = None ->
  node_exec d F g k cpo v e = lam_ex g k cpo v e.
Proof.
  intros d F g k cpo v e n Hf Hk Hi. destruct d; simpl; unfold key_input; rewrite Hf, Hi;
    destruct (n_kind n) eqn:E; auto; exfalso; eapply Hk; eauto.
Qed.
