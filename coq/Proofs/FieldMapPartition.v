(* Proofs/FieldMapPartition.v — the converted stream chunks partition the Invoke value: with one
   chunk per predecessor, every slot at or below a mapped target path is carried by exactly
   one chunk (the one of the declaration that maps it: it reads there what the Invoke value
   reads), every other chunk reads zero there.  Whatever overlays the chunks slot by slot
   (the successor's concatenation, C14/C04) therefore rebuilds the Invoke value. *)
From Coq Require Import Permutation Lia.
From Eino Require Import Base.Util Base.FMUniverse Model.FieldMap
  Proofs.FieldMapOverlap Proofs.FieldMapAssign Proofs.FieldMapComm Proofs.FieldMapGetPut Proofs.FieldMapRun.

Lemma prefix_split : forall p q, prefix p q = true -> exists r, q = p ++ r.
Proof.
  induction p as [|x p IH]; intros q H; [exists q; reflexivity|].
  destruct q as [|y q]; [discriminate|]. simpl in H. apply andb_true_iff in H. destruct H as [H1 H2].
  apply N.eqb_eq in H1. subst y. destruct (IH q H2) as [r Hr]. exists r. simpl. rewrite Hr. reflexivity.
Qed.

Lemma prefix_app : forall p r, prefix p (p ++ r) = true.
Proof. induction p as [|x p IH]; intro r; simpl; [reflexivity | rewrite N.eqb_refl; apply IH]. Qed.

Lemma prefix_trans : forall a b c, prefix a b = true -> prefix b c = true -> prefix a c = true.
Proof.
  induction a as [|x a IH]; intros b c H1 H2; [reflexivity|].
  destruct b as [|y b]; [discriminate|]. destruct c as [|z c]; [discriminate|]. simpl in *.
  apply andb_true_iff in H1. destruct H1 as [E1 H1]. apply andb_true_iff in H2. destruct H2 as [E2 H2].
  apply N.eqb_eq in E1. apply N.eqb_eq in E2. subst. rewrite N.eqb_refl. simpl. eapply IH; eauto.
Qed.

Lemma prefix_comparable : forall q a b, prefix a q = true -> prefix b q = true -> prefix a b = true \/ prefix b a = true.
Proof.
  induction q as [|z q IH]; intros a b Ha Hb.
  - destruct a; [left; reflexivity | discriminate].
  - destruct a as [|x a]; [left; reflexivity|]. destruct b as [|y b]; [right; reflexivity|].
    simpl in *. apply andb_true_iff in Ha. destruct Ha as [E1 Ha]. apply andb_true_iff in Hb. destruct Hb as [E2 Hb].
    apply N.eqb_eq in E1. apply N.eqb_eq in E2. subst. rewrite N.eqb_refl. simpl. apply IH; assumption.
Qed.

(* a path below a (prefix of q) overlaps b only if a itself does *)
Lemma conflict_above : forall a q b, prefix a q = true -> conflict q b = true -> conflict a b = true.
Proof.
  intros a q b Ha H. unfold conflict in *. apply orb_true_iff in H. destruct H as [H|H].
  - rewrite (prefix_trans a q b Ha H). reflexivity.
  - destruct (prefix_comparable q a b Ha H) as [E|E]; rewrite E; [reflexivity | apply orb_true_r].
Qed.

Lemma take_path_app : forall env p r v,
  take_path env v (p ++ r) = match take_path env v p with Ok x => take_path env x r | Err e => Err e | Panic => Panic end.
Proof.
  induction p as [|f p IH]; intros r v; simpl; [reflexivity|].
  destruct (take_one env v f) as [x|e|]; simpl; [apply IH | reflexivity | reflexivity].
Qed.

(* targets of two different declarations of an accepted set do not overlap *)
Lemma cross_decl_fresh : forall ds i j di dj ti tj,
  no_conflict (all_targets ds) -> i <> j ->
  nth_error ds i = Some di -> nth_error ds j = Some dj ->
  In ti (decl_paths di) -> In tj (decl_paths dj) -> conflict ti tj = false.
Proof.
  induction ds as [|d ds IH]; intros i j di dj ti tj Hnc Hij Hi Hj Hti Htj.
  - destruct i; discriminate.
  - unfold all_targets in Hnc. simpl in Hnc. apply no_conflict_app in Hnc. destruct Hnc as [H1 [H2 H3]].
    destruct i as [|i]; destruct j as [|j]; simpl in Hi, Hj.
    + contradiction.
    + inversion Hi; subst. apply H3; [exact Hti|].
      apply nth_error_In in Hj. apply in_concat. exists (decl_paths dj). split; [apply in_map; exact Hj | exact Htj].
    + inversion Hj; subst. rewrite conflict_sym. apply H3; [exact Htj|].
      apply nth_error_In in Hi. apply in_concat. exists (decl_paths di). split; [apply in_map; exact Hi | exact Hti].
    + eapply (IH i j); eauto.
Qed.

Lemma forall2_nth : forall {A B} (P : A -> B -> Prop) l l' i a b,
  Forall2 P l l' -> nth_error l i = Some a -> nth_error l' i = Some b -> P a b.
Proof.
  intros A B P l l' i a b H. revert i. induction H; intros i Ha Hb; destruct i; simpl in *; try discriminate.
  - inversion Ha; inversion Hb; subst. assumption.
  - eapply IHForall2; eauto.
Qed.

Lemma forall2_length : forall {A B} (P : A -> B -> Prop) l l', Forall2 P l l' -> List.length l = List.length l'.
Proof. intros A B P l l' H. induction H; simpl; [reflexivity | f_equal; assumption]. Qed.

Section Partition.
  Variable env : senv.
  Variable T : ty.

  Theorem stream_partition : forall ds ss ckss srcs v,
    compile_s env T ds ss = CAccept ckss -> has_plain ds = false ->
    Forall2 (fun d s => has_type env (d_ty d) s = true) ds srcs ->
    run_invoke_s env T ds ss ckss srcs = Ok v ->
    exists vs, run_stream_from env T ds ckss (map (fun s => [s]) srcs) = Ok vs /\
      List.length vs = List.length ds /\
      forall i d vi from to q,
        nth_error ds i = Some d -> nth_error vs i = Some vi ->
        In (from, to) (d_maps d) -> prefix to q = true ->
        (* the chunk of the declaration that maps the slot reads what the Invoke value reads *)
        take_path env vi q = take_path env v q /\
        (* every other chunk reads zero there *)
        forall j vj z, j <> i -> nth_error vs j = Some vj -> take_path env vj q = Ok z ->
                       exists st b, extract_ty env T q = SOk st b /\ z = zero st.
  Proof.
    intros ds ss ckss srcs v Hcs Hp Ht Hinv.
    destruct (stream_agrees_s env T ds ss ckss srcs v Hcs Hp Ht Hinv) as [vs [Hrs [HF _]]].
    exists vs. split; [exact Hrs|]. split; [symmetry; eapply forall2_length; exact HF|].
    destruct (compile_s_inv env T ds ss ckss Hcs) as [Hc _].
    pose proof (compile_no_conflict env T ds ckss Hc) as Hnc.
    pose proof (has_plain_false ds Hp) as Hnp. unfold no_plain in Hnp.
    pose proof (proj1 (Forall_forall _ _) Hnp) as Hnp'.
    intros i d vi from to q Hd Hvi Hm Hpre.
    pose proof (forall2_nth _ _ _ _ _ _ HF Hd Hvi) as [Hget _].
    destruct (prefix_split _ _ Hpre) as [r Hq]. subst q.
    split.
    - rewrite !take_path_app. rewrite (Hget from to Hm). reflexivity.
    - intros j vj z Hji Hvj Hz.
      assert (Hlen : List.length ds = List.length vs) by (eapply forall2_length; exact HF).
      destruct (nth_error ds j) as [dj|] eqn:Hdj.
      2:{ apply nth_error_None in Hdj. assert (nth_error vs j <> None) by (rewrite Hvj; discriminate).
          apply nth_error_Some in H. lia. }
      pose proof (forall2_nth _ _ _ _ _ _ HF Hdj Hvj) as [_ Hzero].
      assert (Hdm : d_maps d <> []) by (apply Hnp'; eapply nth_error_In; eauto).
      assert (Hdjm : d_maps dj <> []) by (apply Hnp'; eapply nth_error_In; eauto).
      assert (Hfresh : fresh_for (to ++ r) (map snd (d_maps dj))).
      { intros tj Htj. destruct (conflict (to ++ r) tj) eqn:Ec; [|reflexivity].
        apply (conflict_above to) in Ec; [|apply prefix_app].
        rewrite (cross_decl_fresh ds i j d dj to tj Hnc (fun e => Hji (eq_sym e)) Hd Hdj) in Ec; [discriminate| |].
        - rewrite decl_paths_maps by exact Hdm. apply (in_map snd _ (from, to)). exact Hm.
        - rewrite decl_paths_maps by exact Hdjm. exact Htj. }
      apply Hzero; [|exact Hfresh|exact Hz].
      intro Hnil. destruct (d_maps dj) as [|[fj tj] ms] eqn:Em; [contradiction|].
      specialize (Hfresh tj (or_introl eq_refl)). rewrite Hnil in Hfresh. rewrite conflict_nil_l in Hfresh. discriminate.
  Qed.

  (* ... and with static values: they arrive as one more chunk, which carries exactly the
     static slots *)
  Theorem stream_partition_s : forall ds ss ckss srcs v,
    compile_s env T ds ss = CAccept ckss -> has_plain ds = false -> ss <> [] ->
    Forall2 (fun d s => has_type env (d_ty d) s = true) ds srcs ->
    run_invoke_s env T ds ss ckss srcs = Ok v ->
    exists vs vst, run_stream_s env T ds ss ckss (map (fun s => [s]) srcs) = Ok (vs ++ [vst]) /\
      List.length vs = List.length ds /\
      (* a mapped slot: the static chunk reads zero there *)
      (forall i d from to q z, nth_error ds i = Some d -> In (from, to) (d_maps d) -> prefix to q = true ->
         take_path env vst q = Ok z -> exists st b, extract_ty env T q = SOk st b /\ z = zero st) /\
      (* a static slot: the static chunk reads what the Invoke value reads, every other chunk zero *)
      (forall to x q, In (to, x) ss -> prefix to q = true ->
         take_path env vst q = take_path env v q /\
         forall j vj z, nth_error vs j = Some vj -> take_path env vj q = Ok z ->
                        exists st b, extract_ty env T q = SOk st b /\ z = zero st).
  Proof.
    intros ds ss ckss srcs v Hcs Hp Hss Ht Hinv.
    destruct (stream_agrees_s env T ds ss ckss srcs v Hcs Hp Ht Hinv) as [vs [Hrs [HF Hst]]].
    destruct ss as [|s0 ss0]; [contradiction|].
    destruct Hst as [vst [Hrun [Hsget Hszero]]].
    exists vs, vst. split; [exact Hrun|]. split; [symmetry; eapply forall2_length; exact HF|].
    destruct (compile_s_inv env T ds (s0 :: ss0) ckss Hcs) as [Hc [Hs|[Hnc _]]]; [discriminate|].
    apply no_conflict_app in Hnc. destruct Hnc as [_ [_ Hcross]].
    pose proof (has_plain_false ds Hp) as Hnp. unfold no_plain in Hnp.
    pose proof (proj1 (Forall_forall _ _) Hnp) as Hnp'.
    assert (Hin_targets : forall i d from to, nth_error ds i = Some d -> In (from, to) (d_maps d) -> In to (all_targets ds)).
    { intros i d from to Hd Hm. unfold all_targets. apply in_concat. exists (decl_paths d).
      split; [apply in_map; eapply nth_error_In; eauto|].
      rewrite decl_paths_maps by (apply Hnp'; eapply nth_error_In; eauto). apply (in_map snd _ (from, to)). exact Hm. }
    split.
    - intros i d from to q z Hd Hm Hpre Hz. destruct (prefix_split _ _ Hpre) as [r Hq]. subst q.
      assert (Hfresh : fresh_for (to ++ r) (map fst (s0 :: ss0))).
      { intros sp Hsp. destruct (conflict (to ++ r) sp) eqn:Ec; [|reflexivity].
        apply (conflict_above to) in Ec; [|apply prefix_app].
        rewrite (Hcross to sp (Hin_targets i d from to Hd Hm) Hsp) in Ec. discriminate. }
      apply Hszero; [|exact Hfresh|exact Hz].
      intro Hnil. specialize (Hfresh (fst s0) (or_introl eq_refl)). rewrite Hnil in Hfresh.
      rewrite conflict_nil_l in Hfresh. discriminate.
    - intros to x q Hin Hpre. destruct (prefix_split _ _ Hpre) as [r Hq]. subst q. split.
      + rewrite !take_path_app. rewrite (Hsget to x Hin). reflexivity.
      + intros j vj z Hvj Hz.
        assert (Hlen : List.length ds = List.length vs) by (eapply forall2_length; exact HF).
        destruct (nth_error ds j) as [dj|] eqn:Hdj.
        2:{ apply nth_error_None in Hdj. assert (nth_error vs j <> None) by (rewrite Hvj; discriminate).
            apply nth_error_Some in H. lia. }
        pose proof (forall2_nth _ _ _ _ _ _ HF Hdj Hvj) as [_ Hzero].
        assert (Hdjm : d_maps dj <> []) by (apply Hnp'; eapply nth_error_In; eauto).
        assert (Hfresh : fresh_for (to ++ r) (map snd (d_maps dj))).
        { intros tj Htj. destruct (conflict (to ++ r) tj) eqn:Ec; [|reflexivity].
          apply (conflict_above to) in Ec; [|apply prefix_app].
          apply in_map_iff in Htj. destruct Htj as [[fj tj'] [Etj Hmj]]. simpl in Etj. subst tj'.
          rewrite conflict_sym in Ec.
          rewrite (Hcross tj to (Hin_targets j dj fj tj Hdj Hmj) (in_map fst _ (to, x) Hin)) in Ec. discriminate. }
        apply Hzero; [|exact Hfresh|exact Hz].
        intro Hnil. destruct (d_maps dj) as [|[fj tj] ms] eqn:Em; [contradiction|].
        specialize (Hfresh tj (or_introl eq_refl)). rewrite Hnil in Hfresh. rewrite conflict_nil_l in Hfresh. discriminate.
  Qed.
End Partition.
