(* Base/Universe.v — the Go type / value universe of C12 (serialisation).  Definitions
   and small reflection lemmas only; stdlib only.  (C15 uses its own Base/FMUniverse.v.)

   Types   : basic kinds, named basic types, struct types (fields looked up in a struct
             environment, so recursive types are fine), pointers at any depth, slices,
             maps, arrays, defined container types (type T []E / map[K]V / [n]E), named
             interface types, [any].
   Values  : every value carries enough type information to compute its own static type
             [ty_of]: nil pointers carry their element type, containers their element /
             key types (nil and empty are distinct), an interface box carries the
             interface type of the position it sits in and the (concrete) dynamic value.
   Typing  : [wt env v] (v is a well-formed value of type [ty_of v]) and
             [has_type env v t := wt env v && ty_eqb (ty_of v) t].
   dyn_ty  : the dynamic type seen through an interface box (reflect.TypeOf).
   zero    : zero value of a type (fuel only for directly nested struct types).
   veq     : the equivalence "deeply equal, nil and empty containers identified". *)
From Coq Require Import List Bool Arith NArith ZArith String Ascii Lia.
From Eino Require Import Base.Util.
Import ListNotations.
Local Open Scope bool_scope.

(* ------------------------------------------------------------------ basic kinds *)
Inductive base : Type :=
| BBool | BInt | BInt8 | BInt16 | BInt32 | BInt64
| BUint | BUint8 | BUint16 | BUint32 | BUint64 | BUintptr
| BFloat32 | BFloat64 | BComplex64 | BComplex128 | BString.

Definition base_code (b : base) : N :=
  match b with
  | BBool => 0 | BInt => 1 | BInt8 => 2 | BInt16 => 3 | BInt32 => 4 | BInt64 => 5
  | BUint => 6 | BUint8 => 7 | BUint16 => 8 | BUint32 => 9 | BUint64 => 10 | BUintptr => 11
  | BFloat32 => 12 | BFloat64 => 13 | BComplex64 => 14 | BComplex128 => 15 | BString => 16
  end%N.
Definition base_eqb (a b : base) : bool := N.eqb (base_code a) (base_code b).
Lemma base_eqb_eq : forall a b, base_eqb a b = true <-> a = b.
Proof.
  intros a b; split.
  - destruct a, b; simpl; intro H; try reflexivity; discriminate H.
  - intros ->. unfold base_eqb. apply N.eqb_refl.
Qed.
Lemma base_eqb_refl : forall a, base_eqb a a = true.
Proof. intro a. apply base_eqb_eq. reflexivity. Qed.

(* literals of basic kinds.  Integers of every width are a [Z]; floats are their IEEE
   bit pattern (float32: 32 bits, float64: 64 bits) so that -0, NaN payloads and
   subnormals are all distinguishable; strings are byte strings (any bytes). *)
Inductive lit : Type :=
| LBool (b : bool)
| LInt (z : Z)
| LFloat (bits : N)
| LComplex (re im : N)
| LStr (s : string).

Definition lit_eqb (a b : lit) : bool :=
  match a, b with
  | LBool x, LBool y => Bool.eqb x y
  | LInt x, LInt y => Z.eqb x y
  | LFloat x, LFloat y => N.eqb x y
  | LComplex x1 x2, LComplex y1 y2 => N.eqb x1 y1 && N.eqb x2 y2
  | LStr x, LStr y => String.eqb x y
  | _, _ => false
  end.
Lemma lit_eqb_eq : forall a b, lit_eqb a b = true <-> a = b.
Proof.
  intros a b; split.
  - destruct a, b; simpl; intro H; try discriminate H.
    + apply Bool.eqb_prop in H. now subst.
    + apply Z.eqb_eq in H. now subst.
    + apply N.eqb_eq in H. now subst.
    + apply andb_true_iff in H. destruct H as [H1 H2].
      apply N.eqb_eq in H1. apply N.eqb_eq in H2. now subst.
    + apply String.eqb_eq in H. now subst.
  - intros ->. destruct b; simpl.
    + apply Bool.eqb_reflx.
    + apply Z.eqb_refl.
    + apply N.eqb_refl.
    + now rewrite !N.eqb_refl.
    + apply String.eqb_refl.
Qed.

Definition int_range (b : base) : option (Z * Z) :=
  match b with
  | BInt | BInt64 => Some (- 2 ^ 63, 2 ^ 63 - 1)
  | BInt8 => Some (- 2 ^ 7, 2 ^ 7 - 1)
  | BInt16 => Some (- 2 ^ 15, 2 ^ 15 - 1)
  | BInt32 => Some (- 2 ^ 31, 2 ^ 31 - 1)
  | BUint | BUint64 | BUintptr => Some (0, 2 ^ 64 - 1)
  | BUint8 => Some (0, 2 ^ 8 - 1)
  | BUint16 => Some (0, 2 ^ 16 - 1)
  | BUint32 => Some (0, 2 ^ 32 - 1)
  | _ => None
  end%Z.

(* the literal is a value of the basic kind (64-bit platform) *)
Definition lit_in_base (b : base) (l : lit) : bool :=
  match l with
  | LBool _ => base_eqb b BBool
  | LInt z => match int_range b with Some (lo, hi) => Z.leb lo z && Z.leb z hi | None => false end
  | LFloat bits =>
      match b with
      | BFloat32 => N.ltb bits (2 ^ 32)
      | BFloat64 => N.ltb bits (2 ^ 64)
      | _ => false
      end
  | LComplex re im =>
      match b with
      | BComplex64 => N.ltb re (2 ^ 32) && N.ltb im (2 ^ 32)
      | BComplex128 => N.ltb re (2 ^ 64) && N.ltb im (2 ^ 64)
      | _ => false
      end
  | LStr _ => base_eqb b BString
  end.

Definition zero_lit (b : base) : lit :=
  match b with
  | BBool => LBool false
  | BFloat32 | BFloat64 => LFloat 0
  | BComplex64 | BComplex128 => LComplex 0 0
  | BString => LStr EmptyString
  | _ => LInt 0
  end.
Lemma zero_lit_in_base : forall b, lit_in_base b (zero_lit b) = true.
Proof. destruct b; reflexivity. Qed.

(* ------------------------------------------------------------------------ types *)
Inductive ty : Type :=
| TBase (b : base)
| TNamed (n : N) (b : base)        (* defined type [n] whose underlying type is basic *)
| TStruct (n : N)                  (* struct type [n]; fields in the environment *)
| TPtr (t : ty)
| TSlice (t : ty)
| TMap (k t : ty)
| TIface (i : N)                   (* named interface type (method sets are not modelled) *)
| TAny
| TArray (n : nat) (t : ty)        (* [n]t *)
| TDef (d : N) (u : ty).           (* defined container type: type d u, u a slice / map / array type *)

Fixpoint ty_eqb (a b : ty) : bool :=
  match a, b with
  | TBase x, TBase y => base_eqb x y
  | TNamed n x, TNamed m y => N.eqb n m && base_eqb x y
  | TStruct n, TStruct m => N.eqb n m
  | TPtr x, TPtr y => ty_eqb x y
  | TSlice x, TSlice y => ty_eqb x y
  | TMap k x, TMap l y => ty_eqb k l && ty_eqb x y
  | TIface i, TIface j => N.eqb i j
  | TAny, TAny => true
  | TArray n x, TArray m y => Nat.eqb n m && ty_eqb x y
  | TDef d x, TDef e y => N.eqb d e && ty_eqb x y
  | _, _ => false
  end.
Lemma ty_eqb_eq : forall a b, ty_eqb a b = true <-> a = b.
Proof.
  induction a as [x|n x|n|x IH|x IH|k IHk x IHx|i| |n x IH|d x IH]; intros b; split; intro H;
    try (subst b; simpl;
         rewrite ?N.eqb_refl, ?Nat.eqb_refl, ?base_eqb_refl; simpl; try reflexivity).
  all: try (destruct b; simpl in H; try discriminate H).
  - apply base_eqb_eq in H. now subst.
  - apply andb_true_iff in H. destruct H as [H1 H2].
    apply N.eqb_eq in H1. apply base_eqb_eq in H2. now subst.
  - apply N.eqb_eq in H. now subst.
  - apply IH in H. now subst.
  - apply (proj2 (IH x)). reflexivity.
  - apply IH in H. now subst.
  - apply (proj2 (IH x)). reflexivity.
  - apply andb_true_iff in H. destruct H as [H1 H2].
    apply IHk in H1. apply IHx in H2. now subst.
  - rewrite (proj2 (IHk k) eq_refl), (proj2 (IHx x) eq_refl). reflexivity.
  - apply N.eqb_eq in H. now subst.
  - reflexivity.
  - apply andb_true_iff in H. destruct H as [H1 H2].
    apply Nat.eqb_eq in H1. apply IH in H2. now subst.
  - apply (proj2 (IH x)). reflexivity.
  - apply andb_true_iff in H. destruct H as [H1 H2].
    apply N.eqb_eq in H1. apply IH in H2. now subst.
  - apply (proj2 (IH x)). reflexivity.
Qed.
Lemma ty_eqb_refl : forall a, ty_eqb a a = true.
Proof. intro a. apply ty_eqb_eq. reflexivity. Qed.

Definition is_iface (t : ty) : bool :=
  match t with TIface _ | TAny => true | _ => false end.
Definition is_basic_ty (t : ty) : bool :=
  match t with TBase _ | TNamed _ _ => true | _ => false end.
Definition base_of (t : ty) : option base :=
  match t with TBase b | TNamed _ b => Some b | _ => None end.

(* pointer chains: [add_ptr n t] = *...*t (reflect.PointerTo n times);
   [strip_ptr t] = (number of leading pointers, what is below them) *)
Fixpoint add_ptr (n : nat) (t : ty) : ty :=
  match n with O => t | S n' => TPtr (add_ptr n' t) end.
Fixpoint strip_ptr (t : ty) : nat * ty :=
  match t with
  | TPtr t' => let (n, b) := strip_ptr t' in (S n, b)
  | _ => (O, t)
  end.
Definition is_ptr (t : ty) : bool := match t with TPtr _ => true | _ => false end.
(* unnamed container types: what a defined container type may be defined as *)
Definition is_cont_ty (t : ty) : bool :=
  match t with TSlice _ | TMap _ _ | TArray _ _ => true | _ => false end.

Lemma add_ptr_shift : forall n t, add_ptr n (TPtr t) = TPtr (add_ptr n t).
Proof. induction n; intro t; simpl; [reflexivity | now rewrite IHn]. Qed.
Lemma strip_ptr_add : forall t, add_ptr (fst (strip_ptr t)) (snd (strip_ptr t)) = t.
Proof.
  induction t; simpl; try reflexivity.
  destruct (strip_ptr t) as [n b]. simpl in *. now rewrite IHt.
Qed.
Lemma strip_ptr_not_ptr : forall t, is_ptr (snd (strip_ptr t)) = false.
Proof.
  induction t; simpl; try reflexivity.
  destruct (strip_ptr t) as [n b]. simpl in *. exact IHt.
Qed.
Lemma strip_add_ptr : forall n t, is_ptr t = false -> strip_ptr (add_ptr n t) = (n, t).
Proof.
  induction n; intros t H; simpl.
  - destruct t; try reflexivity. discriminate H.
  - rewrite (IHn t H). reflexivity.
Qed.

(* types that may be used: no pointer to an interface type; map key types are basic kinds,
   named basic types, struct types and arrays of key types (the key then has a plain JSON
   text and Go's == on keys is value equality; a struct type used as key type must have
   key-shaped fields: that is checked on the key values, [kval]).  Everything else of the
   grammar is allowed. *)
Fixpoint key_ty (t : ty) : bool :=
  match t with
  | TBase _ | TNamed _ _ | TStruct _ => true
  | TArray _ t' => key_ty t'
  | _ => false
  end.
Fixpoint wf_ty (t : ty) : bool :=
  match t with
  | TPtr t' => negb (is_iface t') && wf_ty t'
  | TSlice t' => wf_ty t'
  | TMap k t' => key_ty k && wf_ty t'
  | TArray _ t' => wf_ty t'
  | TDef _ u => is_cont_ty u && wf_ty u
  | _ => true
  end.

(* struct environment: struct id -> fields in declaration order *)
Definition senv := list (N * list (string * ty)).
Definition struct_fields (env : senv) (n : N) : option (list (string * ty)) := nlist_get n env.

(* ----------------------------------------------------------------------- values *)
Inductive val : Type :=
| VBase (b : base) (l : lit)
| VNamed (n : N) (b : base) (l : lit)
| VStruct (n : N) (fs : list (string * val))          (* fields, declaration order *)
| VNilPtr (t : ty)                                    (* nil pointer of type *t *)
| VPtr (v : val)                                      (* non-nil pointer to v *)
| VSlice (t : ty) (o : option (list val))             (* []t ; None = nil slice *)
| VMap (k t : ty) (o : option (list (val * val)))     (* map[k]t ; None = nil map *)
| VIface (it : ty) (o : option val)                   (* interface position of type it ; None = nil *)
| VArray (t : ty) (es : list val)                     (* [length es]t *)
| VDef (d : N) (w : val).                             (* value of the defined container type d, w the
                                                         slice / map / array it is defined as *)

Section val_ind'.
  Variable P : val -> Prop.
  Hypothesis HBase : forall b l, P (VBase b l).
  Hypothesis HNamed : forall n b l, P (VNamed n b l).
  Hypothesis HStruct : forall n fs, Forall (fun fv => P (snd fv)) fs -> P (VStruct n fs).
  Hypothesis HNil : forall t, P (VNilPtr t).
  Hypothesis HPtr : forall v, P v -> P (VPtr v).
  Hypothesis HSliceN : forall t, P (VSlice t None).
  Hypothesis HSlice : forall t es, Forall P es -> P (VSlice t (Some es)).
  Hypothesis HMapN : forall k t, P (VMap k t None).
  Hypothesis HMap : forall k t kvs, Forall (fun kv => P (fst kv) /\ P (snd kv)) kvs -> P (VMap k t (Some kvs)).
  Hypothesis HIfaceN : forall it, P (VIface it None).
  Hypothesis HIface : forall it v, P v -> P (VIface it (Some v)).
  Hypothesis HArray : forall t es, Forall P es -> P (VArray t es).
  Hypothesis HDef : forall d w, P w -> P (VDef d w).

  Fixpoint val_ind' (v : val) : P v :=
    match v with
    | VBase b l => HBase b l
    | VNamed n b l => HNamed n b l
    | VStruct n fs =>
        HStruct n fs
          ((fix go (fs : list (string * val)) : Forall (fun fv => P (snd fv)) fs :=
              match fs with
              | [] => Forall_nil _
              | fv :: r => Forall_cons fv (val_ind' (snd fv)) (go r)
              end) fs)
    | VNilPtr t => HNil t
    | VPtr w => HPtr w (val_ind' w)
    | VSlice t None => HSliceN t
    | VSlice t (Some es) =>
        HSlice t es
          ((fix go (es : list val) : Forall P es :=
              match es with
              | [] => Forall_nil _
              | e :: r => Forall_cons e (val_ind' e) (go r)
              end) es)
    | VMap k t None => HMapN k t
    | VMap k t (Some kvs) =>
        HMap k t kvs
          ((fix go (kvs : list (val * val)) : Forall (fun kv => P (fst kv) /\ P (snd kv)) kvs :=
              match kvs with
              | [] => Forall_nil _
              | kv :: r => Forall_cons kv (conj (val_ind' (fst kv)) (val_ind' (snd kv))) (go r)
              end) kvs)
    | VIface it None => HIfaceN it
    | VIface it (Some w) => HIface it w (val_ind' w)
    | VArray t es =>
        HArray t es
          ((fix go (es : list val) : Forall P es :=
              match es with
              | [] => Forall_nil _
              | e :: r => Forall_cons e (val_ind' e) (go r)
              end) es)
    | VDef d w => HDef d w (val_ind' w)
    end.
End val_ind'.

(* static type of a value (the type of the position it occupies) *)
Fixpoint ty_of (v : val) : ty :=
  match v with
  | VBase b _ => TBase b
  | VNamed n b _ => TNamed n b
  | VStruct n _ => TStruct n
  | VNilPtr t => TPtr t
  | VPtr w => TPtr (ty_of w)
  | VSlice t _ => TSlice t
  | VMap k t _ => TMap k t
  | VIface it _ => it
  | VArray t es => TArray (List.length es) t
  | VDef d w => TDef d (ty_of w)
  end.

(* dynamic type as reflect.TypeOf reports it: None for a nil interface *)
Definition dyn_ty (v : val) : option ty :=
  match v with
  | VIface _ None => None
  | VIface _ (Some w) => Some (ty_of w)
  | _ => Some (ty_of v)
  end.
(* the value an interface position holds (v.Interface()): None = nil interface *)
Definition unbox (v : val) : option val :=
  match v with
  | VIface _ o => o
  | _ => Some v
  end.

(* [wrap_ptr n v] = &...&v *)
Fixpoint wrap_ptr (n : nat) (v : val) : val :=
  match n with O => v | S n' => VPtr (wrap_ptr n' v) end.
Lemma wrap_ptr_shift : forall n v, wrap_ptr n (VPtr v) = VPtr (wrap_ptr n v).
Proof. induction n; intro v; simpl; [reflexivity | now rewrite IHn]. Qed.
Lemma ty_of_wrap_ptr : forall n v, ty_of (wrap_ptr n v) = add_ptr n (ty_of v).
Proof. induction n; intro v; simpl; [reflexivity | now rewrite IHn]. Qed.

Definition key_lit (v : val) : option lit :=
  match v with VBase _ l | VNamed _ _ l => Some l | _ => None end.

(* key-shaped values: values of basic kind, arrays and structs of key-shaped values (no
   pointers, interfaces, slices or maps inside a key) *)
Fixpoint kval (v : val) : bool :=
  match v with
  | VBase _ _ | VNamed _ _ _ => true
  | VArray _ es => forallb kval es
  | VStruct _ fs => forallb (fun fv => kval (snd fv)) fs
  | _ => false
  end.

(* ---------------------------------------------- executable structural equality on values
   (exact: nil and empty are different) — used by the correspondence comparisons *)
Definition opt_eqb {A} (f : A -> A -> bool) (a b : option A) : bool :=
  match a, b with
  | None, None => true
  | Some x, Some y => f x y
  | _, _ => false
  end.
Fixpoint list_eqb {A} (f : A -> A -> bool) (a b : list A) : bool :=
  match a, b with
  | [], [] => true
  | x :: a', y :: b' => f x y && list_eqb f a' b'
  | _, _ => false
  end.

Fixpoint val_eqb (a b : val) : bool :=
  match a, b with
  | VBase x l, VBase y m => base_eqb x y && lit_eqb l m
  | VNamed n x l, VNamed k y m => N.eqb n k && base_eqb x y && lit_eqb l m
  | VStruct n fs, VStruct k gs =>
      N.eqb n k &&
      (fix go (fs gs : list (string * val)) {struct fs} : bool :=
         match fs, gs with
         | [], [] => true
         | (f, v) :: fs', (g, w) :: gs' => String.eqb f g && val_eqb v w && go fs' gs'
         | _, _ => false
         end) fs gs
  | VNilPtr t, VNilPtr u => ty_eqb t u
  | VPtr v, VPtr w => val_eqb v w
  | VSlice t o, VSlice u p =>
      ty_eqb t u &&
      match o, p with
      | None, None => true
      | Some es, Some gs =>
          (fix go (es gs : list val) {struct es} : bool :=
             match es, gs with
             | [], [] => true
             | e :: es', g :: gs' => val_eqb e g && go es' gs'
             | _, _ => false
             end) es gs
      | _, _ => false
      end
  | VMap k t o, VMap l u p =>
      ty_eqb k l && ty_eqb t u &&
      match o, p with
      | None, None => true
      | Some es, Some gs =>
          (fix go (es gs : list (val * val)) {struct es} : bool :=
             match es, gs with
             | [], [] => true
             | (a1, b1) :: es', (a2, b2) :: gs' => val_eqb a1 a2 && val_eqb b1 b2 && go es' gs'
             | _, _ => false
             end) es gs
      | _, _ => false
      end
  | VIface it o, VIface ju p =>
      ty_eqb it ju &&
      match o, p with
      | None, None => true
      | Some v, Some w => val_eqb v w
      | _, _ => false
      end
  | VArray t es, VArray u gs =>
      ty_eqb t u &&
      (fix go (es gs : list val) {struct es} : bool :=
         match es, gs with
         | [], [] => true
         | e :: es', g :: gs' => val_eqb e g && go es' gs'
         | _, _ => false
         end) es gs
  | VDef d v, VDef e w => N.eqb d e && val_eqb v w
  | _, _ => false
  end.

Lemma val_eqb_refl : forall v, val_eqb v v = true.
Proof.
  induction v using val_ind'; simpl;
    rewrite ?N.eqb_refl, ?base_eqb_refl, ?ty_eqb_refl, ?(proj2 (lit_eqb_eq _ _) eq_refl); simpl; auto.
  - induction H as [|[f w] r Hw _ IH]; [reflexivity|]. simpl in Hw.
    now rewrite String.eqb_refl, Hw, IH.
  - induction H as [|e r He _ IH]; [reflexivity|]. now rewrite He, IH.
  - induction H as [|[a b] r [Ha Hb] _ IH]; [reflexivity|]. simpl in *. now rewrite Ha, Hb, IH.
  - induction H as [|e r He _ IH]; [reflexivity|]. now rewrite He, IH.
Qed.

(* map keys: key-shaped and pairwise different (Go's == on keys) *)
Fixpoint val_mem (v : val) (l : list val) : bool :=
  match l with [] => false | x :: r => val_eqb v x || val_mem v r end.
Fixpoint vals_nodup (l : list val) : bool :=
  match l with [] => true | x :: r => negb (val_mem x r) && vals_nodup r end.
Definition keys_nodup (kvs : list (val * val)) : bool :=
  forallb (fun kv => kval (fst kv)) kvs && vals_nodup (map fst kvs).

(* well-formed value (of type [ty_of v]) *)
Fixpoint wt (env : senv) (v : val) : bool :=
  match v with
  | VBase b l => lit_in_base b l
  | VNamed _ b l => lit_in_base b l
  | VStruct n fs =>
      match struct_fields env n with
      | None => false
      | Some decls =>
          (fix go (ds : list (string * ty)) (fs : list (string * val)) {struct fs} : bool :=
             match ds, fs with
             | [], [] => true
             | (f, t) :: ds', (g, w) :: fs' =>
                 String.eqb f g && wt env w && ty_eqb (ty_of w) t && go ds' fs'
             | _, _ => false
             end) decls fs
      end
  | VNilPtr t => negb (is_iface t) && wf_ty t
  | VPtr w => negb (is_iface (ty_of w)) && wt env w
  | VSlice t o =>
      wf_ty t &&
      match o with
      | None => true
      | Some es => (fix go (es : list val) : bool :=
                      match es with
                      | [] => true
                      | e :: r => wt env e && ty_eqb (ty_of e) t && go r
                      end) es
      end
  | VMap k t o =>
      key_ty k && wf_ty t &&
      match o with
      | None => true
      | Some kvs => (fix go (kvs : list (val * val)) : bool :=
                       match kvs with
                       | [] => true
                       | (a, b) :: r =>
                           wt env a && ty_eqb (ty_of a) k && wt env b && ty_eqb (ty_of b) t && go r
                       end) kvs
                    && keys_nodup kvs
      end
  | VIface it o =>
      is_iface it &&
      match o with
      | None => true
      | Some w => negb (is_iface (ty_of w)) && wt env w
      end
  | VArray t es =>
      wf_ty t &&
      (fix go (es : list val) : bool :=
         match es with
         | [] => true
         | e :: r => wt env e && ty_eqb (ty_of e) t && go r
         end) es
  | VDef _ w => is_cont_ty (ty_of w) && wt env w
  end.

Definition has_type (env : senv) (v : val) (t : ty) : bool := wt env v && ty_eqb (ty_of v) t.

(* the same, over lists, as separate functions (for reasoning) *)
Fixpoint fields_wt (env : senv) (ds : list (string * ty)) (fs : list (string * val)) : bool :=
  match ds, fs with
  | [], [] => true
  | (f, t) :: ds', (g, w) :: fs' =>
      String.eqb f g && wt env w && ty_eqb (ty_of w) t && fields_wt env ds' fs'
  | _, _ => false
  end.
Fixpoint elems_wt (env : senv) (t : ty) (es : list val) : bool :=
  match es with
  | [] => true
  | e :: r => wt env e && ty_eqb (ty_of e) t && elems_wt env t r
  end.
Fixpoint entries_wt (env : senv) (k t : ty) (kvs : list (val * val)) : bool :=
  match kvs with
  | [] => true
  | (a, b) :: r =>
      wt env a && ty_eqb (ty_of a) k && wt env b && ty_eqb (ty_of b) t && entries_wt env k t r
  end.

Lemma wt_struct : forall env n fs,
  wt env (VStruct n fs) =
  match struct_fields env n with None => false | Some ds => fields_wt env ds fs end.
Proof.
  intros env n fs. simpl. destruct (struct_fields env n) as [ds|]; [|reflexivity].
  revert fs. induction ds as [|[f t] ds IH]; intros [|[g w] fs]; simpl; try reflexivity.
  now rewrite IH.
Qed.
Lemma wt_slice : forall env t es,
  wt env (VSlice t (Some es)) = wf_ty t && elems_wt env t es.
Proof.
  intros env t es. simpl. f_equal. induction es as [|e r IH]; simpl; [reflexivity|now rewrite IH].
Qed.
Lemma wt_array : forall env t es,
  wt env (VArray t es) = wf_ty t && elems_wt env t es.
Proof.
  intros env t es. simpl. f_equal. induction es as [|e r IH]; simpl; [reflexivity|now rewrite IH].
Qed.
Lemma wt_map : forall env k t kvs,
  wt env (VMap k t (Some kvs)) = key_ty k && wf_ty t && (entries_wt env k t kvs && keys_nodup kvs).
Proof.
  intros env k t kvs. simpl. f_equal. f_equal.
  induction kvs as [|[a b] r IH]; simpl; [reflexivity|now rewrite IH].
Qed.

(* zero value of a type.  Fuel is consumed only when a struct type contains another
   struct type directly (not behind a pointer, slice, map or interface); out-of-fuel and
   an undeclared struct are errors, never a value. *)
Definition E_FUEL : N := 90.
Definition E_NOSTRUCT : N := 91.
Fixpoint zero (fuel : nat) (env : senv) (t : ty) {struct fuel} : res val :=
  (fix zt (t : ty) : res val :=
     match t with
     | TBase b => Ok (VBase b (zero_lit b))
     | TNamed n b => Ok (VNamed n b (zero_lit b))
     | TPtr t' => Ok (VNilPtr t')
     | TSlice t' => Ok (VSlice t' None)
     | TMap k t' => Ok (VMap k t' None)
     | TIface _ | TAny => Ok (VIface t None)
     | TArray n t' => do z <- zt t'; Ok (VArray t' (repeat z n))
     | TDef d u => do z <- zt u; Ok (VDef d z)
     | TStruct n =>
         match fuel with
         | O => Err E_FUEL
         | S f =>
             match struct_fields env n with
             | None => Err E_NOSTRUCT
             | Some ds =>
                 do fs <- res_mapM (fun d => do z <- zero f env (snd d); Ok (fst d, z)) ds;
                 Ok (VStruct n fs)
             end
         end
     end) t.
Definition zero_fuel (env : senv) : nat := S (List.length env).

Lemma zero_iface : forall fuel env t, is_iface t = true -> zero fuel env t = Ok (VIface t None).
Proof. intros fuel env t H. destruct t; try discriminate H; destruct fuel; reflexivity. Qed.
Lemma zero_ty_of : forall fuel env t v, zero fuel env t = Ok v -> ty_of v = t.
Proof.
  intros fuel env t. induction t; intros v H; destruct fuel; simpl in H; try (inversion H; reflexivity).
  - destruct (struct_fields env n); [|discriminate H].
    destruct (res_mapM _ l); simpl in H; inversion H. reflexivity.
  - change ((fix zt (t : ty) : res val := _) t) with (zero 0 env t) in H.
    destruct (zero 0 env t) as [z| |] eqn:E; simpl in H; inversion H; subst. simpl. now rewrite repeat_length.
  - change ((fix zt (t : ty) : res val := _) t) with (zero (S fuel) env t) in H.
    destruct (zero (S fuel) env t) as [z| |] eqn:E; simpl in H; inversion H; subst. simpl. now rewrite repeat_length.
  - change ((fix zt (t : ty) : res val := _) t) with (zero 0 env t) in H.
    destruct (zero 0 env t) as [z| |] eqn:E; simpl in H; inversion H; subst. simpl. now rewrite (IHt z eq_refl).
  - change ((fix zt (t : ty) : res val := _) t) with (zero (S fuel) env t) in H.
    destruct (zero (S fuel) env t) as [z| |] eqn:E; simpl in H; inversion H; subst. simpl. now rewrite (IHt z eq_refl).
Qed.

(* ------------------------------------------------- equivalence: nil ~ empty container *)
Inductive veq : val -> val -> Prop :=
| EqBase : forall b l, veq (VBase b l) (VBase b l)
| EqNamed : forall n b l, veq (VNamed n b l) (VNamed n b l)
| EqStruct : forall n fs gs,
    Forall2 (fun fv gv => fst fv = fst gv /\ veq (snd fv) (snd gv)) fs gs ->
    veq (VStruct n fs) (VStruct n gs)
| EqNilPtr : forall t, veq (VNilPtr t) (VNilPtr t)
| EqPtr : forall v w, veq v w -> veq (VPtr v) (VPtr w)
| EqSlice : forall t o p,
    Forall2 veq (match o with Some l => l | None => [] end) (match p with Some l => l | None => [] end) ->
    veq (VSlice t o) (VSlice t p)
| EqMap : forall k t o p,
    Forall2 (fun a b => veq (fst a) (fst b) /\ veq (snd a) (snd b))
            (match o with Some l => l | None => [] end) (match p with Some l => l | None => [] end) ->
    veq (VMap k t o) (VMap k t p)
| EqIfaceNil : forall it, veq (VIface it None) (VIface it None)
| EqIface : forall it v w, veq v w -> veq (VIface it (Some v)) (VIface it (Some w))
| EqArray : forall t es gs, Forall2 veq es gs -> veq (VArray t es) (VArray t gs)
| EqDef : forall d v w, veq v w -> veq (VDef d v) (VDef d w).
(* Map entries are compared position-wise: both sides are kept in one canonical entry
   order (the harness sorts by key; the models preserve the order), which implies the
   order-insensitive notion reflect.DeepEqual implements. *)
Infix "≅" := veq (at level 70).

Lemma veq_refl : forall v, v ≅ v.
Proof.
  induction v using val_ind'.
  - constructor.
  - constructor.
  - constructor. induction H; constructor; auto.
  - constructor.
  - constructor; auto.
  - constructor. simpl. constructor.
  - constructor. simpl. induction H; constructor; auto.
  - constructor. simpl. constructor.
  - constructor. simpl. induction H; constructor; intuition.
  - constructor.
  - constructor; auto.
  - constructor. induction H; constructor; auto.
  - constructor; auto.
Qed.

Lemma Forall2_len {A B} (R : A -> B -> Prop) : forall l m, Forall2 R l m -> List.length l = List.length m.
Proof. induction 1; simpl; congruence. Qed.

Lemma veq_ty_of : forall v w, v ≅ w -> ty_of v = ty_of w.
Proof.
  induction 1; simpl; try reflexivity; try (now rewrite IHveq).
  f_equal. eapply Forall2_len; eauto.
Qed.

Lemma veq_wrap_ptr : forall n v w, v ≅ w -> wrap_ptr n v ≅ wrap_ptr n w.
Proof. induction n; intros v w H; simpl; [exact H | constructor; auto]. Qed.

(* ------------------------------------------------ all basic literals of a value (values,
   map keys, everything below pointers and interface boxes), with their basic kind *)
Fixpoint lits_of (v : val) : list (base * lit) :=
  match v with
  | VBase b l => [(b, l)]
  | VNamed _ b l => [(b, l)]
  | VStruct _ fs => flat_map (fun fv => lits_of (snd fv)) fs
  | VNilPtr _ => []
  | VPtr w => lits_of w
  | VSlice _ None => []
  | VSlice _ (Some es) => flat_map lits_of es
  | VMap _ _ None => []
  | VMap _ _ (Some kvs) => flat_map (fun kv => lits_of (fst kv) ++ lits_of (snd kv)) kvs
  | VIface _ None => []
  | VIface _ (Some w) => lits_of w
  | VArray _ es => flat_map lits_of es
  | VDef _ w => lits_of w
  end.

(* ------------------------------------------------ defined container types of a value.
   [def_ty v]: the defined container type of v itself, if v is of one;
   [boxed_defs v]: the defined container types of the values directly held by an interface
   position inside v (where the static type cannot restore the name);
   [defs_of v]: of every value inside v *)
Definition def_ty (v : val) : list ty :=
  match v with VDef d w => [TDef d (ty_of w)] | _ => [] end.
Fixpoint boxed_defs (v : val) : list ty :=
  match v with
  | VBase _ _ | VNamed _ _ _ | VNilPtr _ => []
  | VStruct _ fs => flat_map (fun fv => boxed_defs (snd fv)) fs
  | VPtr w => boxed_defs w
  | VSlice _ None => []
  | VSlice _ (Some es) => flat_map boxed_defs es
  | VMap _ _ None => []
  | VMap _ _ (Some kvs) => flat_map (fun kv => boxed_defs (fst kv) ++ boxed_defs (snd kv)) kvs
  | VIface _ None => []
  | VIface _ (Some w) => def_ty w ++ boxed_defs w
  | VArray _ es => flat_map boxed_defs es
  | VDef _ w => boxed_defs w
  end.
Fixpoint defs_of (v : val) : list ty :=
  match v with
  | VBase _ _ | VNamed _ _ _ | VNilPtr _ => []
  | VStruct _ fs => flat_map (fun fv => defs_of (snd fv)) fs
  | VPtr w => defs_of w
  | VSlice _ None => []
  | VSlice _ (Some es) => flat_map defs_of es
  | VMap _ _ None => []
  | VMap _ _ (Some kvs) => flat_map (fun kv => defs_of (fst kv) ++ defs_of (snd kv)) kvs
  | VIface _ None => []
  | VIface _ (Some w) => defs_of w
  | VArray _ es => flat_map defs_of es
  | VDef d w => TDef d (ty_of w) :: defs_of w
  end.
