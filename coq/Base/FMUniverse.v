(* Base/FMUniverse.v — the small Go type/value universe of property C15 (field mappings).

   Types: int, string, `any`, named structs (through an environment), pointers,
   maps (string keys, or "some other key type" which field mappings must reject).
   Field names and map keys are numbers (the harness owns the symbol table), so that
   association lists can be kept sorted with [N.ltb] and compared with [N.eqb].

   Values are SPARSE: a struct value lists only the fields that were written; an absent
   field stands for the zero value of its type.  This makes [zero] non-recursive (no
   fuel) and is what reflect.New(T).Elem() looks like to the path walker.  Interface
   slots need no box: a slot of type [TAny] holds [VNil] (nil interface) or any other
   value, whose dynamic type [dyn] is read off its head constructor (pointers and maps
   carry their element types, so typed nil pointers / nil maps inside an interface keep
   their type, as in Go). *)
From Eino Require Import Base.Util.

Inductive ty : Type :=
| TInt | TStr | TAny
| TStruct (n : N)
| TPtr (t : ty)
| TMap (ks : bool) (t : ty).      (* ks = true: map[string]t ; false: map[int]t *)

Fixpoint ty_eqb (a b : ty) : bool :=
  match a, b with
  | TInt, TInt | TStr, TStr | TAny, TAny => true
  | TStruct n, TStruct m => N.eqb n m
  | TPtr x, TPtr y => ty_eqb x y
  | TMap k x, TMap k' y => Bool.eqb k k' && ty_eqb x y
  | _, _ => false
  end.

(* struct environment: struct id -> fields (name, (exported, type)) *)
Definition fdecl : Type := (N * (bool * ty))%type.
Definition senv : Type := list (N * list fdecl).

Definition lookup_field (env : senv) (n f : N) : option (bool * ty) :=
  match nlist_get n env with
  | Some fs => nlist_get f fs
  | None => None
  end.

Inductive val : Type :=
| VNil                                             (* nil interface value *)
| VInt (z : Z)
| VStr (s : string)
| VStruct (n : N) (fs : list (N * val))
| VPtr (t : ty) (o : option val)                   (* *t ; None = nil pointer *)
| VMap (ks : bool) (t : ty) (o : option (list (N * val))).  (* None = nil map *)

(* dynamic type; None for the nil interface *)
Definition dyn (v : val) : option ty :=
  match v with
  | VNil => None
  | VInt _ => Some TInt
  | VStr _ => Some TStr
  | VStruct n _ => Some (TStruct n)
  | VPtr t _ => Some (TPtr t)
  | VMap ks t _ => Some (TMap ks t)
  end.

(* reflect.Zero / reflect.New(t).Elem() *)
Definition zero (t : ty) : val :=
  match t with
  | TInt => VInt 0
  | TStr => VStr ""
  | TAny => VNil
  | TStruct n => VStruct n []
  | TPtr u => VPtr u None
  | TMap ks u => VMap ks u None
  end.

(* Kind() in {Map, Slice, Ptr, Interface}: the kinds that can hold nil *)
Definition nilable (t : ty) : bool :=
  match t with TAny | TPtr _ | TMap _ _ => true | _ => false end.

(* reflect.Type.AssignableTo for a concrete dynamic type d and a slot type t *)
Definition assignable (d t : ty) : bool :=
  ty_eqb d t || match t with TAny => true | _ => false end.

(* sorted association lists keyed by N (from Base/Util.v) *)
Definition aget {A} := @nlist_get A.
Definition ains {A} := @nlist_insert_sorted A.

(* ------------------------------------------------------------------ equality *)

Fixpoint val_eqb (a b : val) : bool :=
  match a, b with
  | VNil, VNil => true
  | VInt x, VInt y => Z.eqb x y
  | VStr x, VStr y => String.eqb x y
  | VStruct n fs, VStruct m gs =>
      N.eqb n m &&
      (fix go (x y : list (N * val)) : bool :=
         match x, y with
         | [], [] => true
         | (k, v) :: x', (k', v') :: y' => N.eqb k k' && val_eqb v v' && go x' y'
         | _, _ => false
         end) fs gs
  | VPtr t o, VPtr u p =>
      ty_eqb t u && match o, p with
                    | None, None => true
                    | Some x, Some y => val_eqb x y
                    | _, _ => false
                    end
  | VMap k t o, VMap k' u p =>
      Bool.eqb k k' && ty_eqb t u &&
      match o, p with
      | None, None => true
      | Some es, Some gs =>
          (fix go (x y : list (N * val)) : bool :=
             match x, y with
             | [], [] => true
             | (k, v) :: x', (k', v') :: y' => N.eqb k k' && val_eqb v v' && go x' y'
             | _, _ => false
             end) es gs
      | _, _ => false
      end
  | _, _ => false
  end.

(* ---------------------------------------------------------- canonical form *)
(* A struct field that holds the zero value of its (static) type is indistinguishable in
   Go from a field never written; [norm] drops such fields and sorts fields and map
   entries by key.  Map entries are always kept (a present key with a zero value differs
   from an absent key), and so is the difference between nil and empty maps / nil and
   non-nil pointers. *)
Fixpoint norm (env : senv) (v : val) : val :=
  match v with
  | VStruct n fs =>
      VStruct n
        ((fix go (l : list (N * val)) : list (N * val) :=
            match l with
            | [] => []
            | (k, x) :: l' =>
                let x' := norm env x in
                let drop := match lookup_field env n k with
                            | Some (_, ft) => val_eqb x' (zero ft)
                            | None => false
                            end in
                if drop then go l' else ains k x' (go l')
            end) fs)
  | VPtr t (Some x) => VPtr t (Some (norm env x))
  | VMap ks t (Some es) =>
      VMap ks t (Some
        ((fix go (l : list (N * val)) : list (N * val) :=
            match l with
            | [] => []
            | (k, x) :: l' => ains k (norm env x) (go l')
            end) es))
  | _ => v
  end.

Definition veq (env : senv) (a b : val) : bool := val_eqb (norm env a) (norm env b).
