(* Base/GoSlice.v — Go slices over a heap of arrays (used by C10: callback handler lists).

   A heap is a list of arrays (array id = index, physical length = what Go calls the
   capacity of the allocation).  A slice header is (arr, off, len, cap) exactly as in Go:
   it denotes  array[off .. off+len)  and may grow in place up to  array[off .. off+cap).

   [append] is Go's built-in: in place when  len + k <= cap  (the elements are written
   into the shared backing array, whoever else can see that region sees them), otherwise a
   fresh array is allocated.  The capacity of the fresh array is chosen by a growth policy
   [pol] which is left UNSPECIFIED (only forced to be large enough): every theorem about
   code using [append] quantifies over all policies, i.e. over every Go version's
   growslice.

   Definitions only (executable); the lemmas live in Proofs/CallbacksSlice.v. *)
From Coq Require Import List Arith NArith Bool.
Import ListNotations.

Definition elem := N.                       (* stored values (handler ids); 0 = zero value / nil *)
Definition heap := list (list elem).

Record slice := { arr : nat; off : nat; len : nat; cap : nat }.

(* Go's nil slice: no array behind it (cap = 0, so the array index is never used for writing) *)
Definition nil_slice : slice := {| arr := 0; off := 0; len := 0; cap := 0 |}.

Definition arr_of (h : heap) (s : slice) : list elem := nth (arr s) h [].

(* the elements a reader of [s] sees *)
Definition read (h : heap) (s : slice) : list elem := firstn (len s) (skipn (off s) (arr_of h s)).

(* overwrite l[i .. i+|xs|) *)
Fixpoint write_at {A} (l : list A) (i : nat) (xs : list A) : list A :=
  match i, l with
  | O, _ => xs ++ skipn (length xs) l
  | S i', a :: l' => a :: write_at l' i' xs
  | S _, [] => []
  end.

Fixpoint set_nth {A} (l : list A) (i : nat) (a : A) : list A :=
  match i, l with
  | O, _ :: l' => a :: l'
  | S i', x :: l' => x :: set_nth l' i' a
  | _, [] => []
  end.

(* growth policy: old capacity -> old length -> number of appended elements -> proposed capacity *)
Definition policy := nat -> nat -> nat -> nat.

Definition append (pol : policy) (h : heap) (s : slice) (xs : list elem) : heap * slice :=
  let k := length xs in
  if len s + k <=? cap s then
    (set_nth h (arr s) (write_at (arr_of h s) (off s + len s) xs),
     {| arr := arr s; off := off s; len := len s + k; cap := cap s |})
  else
    let c := Nat.max (pol (cap s) (len s) k) (len s + k) in
    (h ++ [read h s ++ xs ++ repeat 0%N (c - (len s + k))],
     {| arr := length h; off := 0; len := len s + k; cap := c |}).

(* make([]T, l, c) *)
Definition make (h : heap) (l c : nat) : heap * slice :=
  let c' := Nat.max l c in
  (h ++ [repeat 0%N c'], {| arr := length h; off := 0; len := l; cap := c' |}).

(* s[lo:hi] (no bounds panic modelled: callers state lo <= hi <= cap) *)
Definition reslice (s : slice) (lo hi : nat) : slice :=
  {| arr := arr s; off := off s + lo; len := hi - lo; cap := cap s - lo |}.

(* a slice over a freshly allocated array  pre ++ xs ++ spare zeros : the harness builds
   exactly this as  back[o : o+l : o+l+spare]  *)
Definition alloc_slice (h : heap) (o : nat) (xs : list elem) (spare : nat) : heap * slice :=
  (h ++ [repeat 0%N o ++ xs ++ repeat 0%N spare],
   {| arr := length h; off := o; len := length xs; cap := length xs + spare |}).

(* well-formed header: either nil-like (cap = 0) or inside an existing array *)
Definition wf (h : heap) (s : slice) : Prop :=
  len s <= cap s /\ (cap s = 0 \/ (arr s < length h /\ off s + cap s <= length (arr_of h s))).

Definition wfb (h : heap) (s : slice) : bool :=
  (len s <=? cap s) && ((cap s =? 0) || ((arr s <? length h) && (off s + cap s <=? length (arr_of h s)))).

(* some concrete policies for evaluation *)
Definition pol_double : policy := fun c l k => 2 * c.       (* roughly Go for small slices *)
Definition pol_exact  : policy := fun c l k => 0.           (* always the minimum *)
Definition pol_plus (n : nat) : policy := fun c l k => l + k + n.
