(* Base/Util.v — small shared vocabulary for every model.
   Definitions only need the standard library; no axioms. *)
From Coq Require Export List Bool Arith NArith ZArith String Ascii Lia.
Export ListNotations.

(* result of an operation of the implementation:
   a value, an ordinary error (classified by a small tag, never by message),
   or a panic (recovered or escaped — the harness says which where it matters). *)
Inductive res (A : Type) : Type :=
| Ok (a : A)
| Err (e : N)
| Panic.
Arguments Ok {A} a.
Arguments Err {A} e.
Arguments Panic {A}.

Definition res_bind {A B} (r : res A) (f : A -> res B) : res B :=
  match r with Ok a => f a | Err e => Err e | Panic => Panic end.
Definition res_map {A B} (f : A -> B) (r : res A) : res B :=
  match r with Ok a => Ok (f a) | Err e => Err e | Panic => Panic end.
Notation "'do' x <- r ; k" := (res_bind r (fun x => k))
  (at level 200, x pattern, r at level 100, k at level 200, right associativity).

Definition is_ok {A} (r : res A) : bool := match r with Ok _ => true | _ => false end.

(* monadic map over a list, left to right, first failure wins *)
Fixpoint res_mapM {A B} (f : A -> res B) (l : list A) : res (list B) :=
  match l with
  | [] => Ok []
  | a :: l' => do b <- f a; do bs <- res_mapM f l'; Ok (b :: bs)
  end.

(* association lists keyed by string, kept in insertion order unless stated *)
Fixpoint alist_get {A} (k : string) (l : list (string * A)) : option A :=
  match l with
  | [] => None
  | (k', a) :: l' => if String.eqb k k' then Some a else alist_get k l'
  end.

Fixpoint alist_set {A} (k : string) (a : A) (l : list (string * A)) : list (string * A) :=
  match l with
  | [] => [(k, a)]
  | (k', a') :: l' => if String.eqb k k' then (k, a) :: l' else (k', a') :: alist_set k a l'
  end.

(* association lists keyed by N *)
Fixpoint nlist_get {A} (k : N) (l : list (N * A)) : option A :=
  match l with
  | [] => None
  | (k', a) :: l' => if N.eqb k k' then Some a else nlist_get k l'
  end.

Fixpoint nlist_set {A} (k : N) (a : A) (l : list (N * A)) : list (N * A) :=
  match l with
  | [] => [(k, a)]
  | (k', a') :: l' => if N.eqb k k' then (k, a) :: l' else (k', a') :: nlist_set k a l'
  end.

(* insertion into a list sorted by N key (strictly increasing keys) *)
Fixpoint nlist_insert_sorted {A} (k : N) (a : A) (l : list (N * A)) : list (N * A) :=
  match l with
  | [] => [(k, a)]
  | (k', a') :: l' =>
      if N.ltb k k' then (k, a) :: (k', a') :: l'
      else if N.eqb k k' then (k, a) :: l'
      else (k', a') :: nlist_insert_sorted k a l'
  end.

(* string order, for canonical sorting of map keys in comparisons *)
Fixpoint string_ltb (a b : string) : bool :=
  match a, b with
  | EmptyString, EmptyString => false
  | EmptyString, String _ _ => true
  | String _ _, EmptyString => false
  | String x a', String y b' =>
      let nx := N_of_ascii x in let ny := N_of_ascii y in
      if N.ltb nx ny then true else if N.ltb ny nx then false else string_ltb a' b'
  end.

Fixpoint insert_by {A} (lt : A -> A -> bool) (a : A) (l : list A) : list A :=
  match l with
  | [] => [a]
  | b :: l' => if lt a b then a :: b :: l' else b :: insert_by lt a l'
  end.
Definition sort_by {A} (lt : A -> A -> bool) (l : list A) : list A :=
  fold_right (insert_by lt) [] l.

(* indices of the elements on which [bad] holds — what every cases_*.v prints *)
Fixpoint mismatches_from {A} (bad : A -> bool) (i : nat) (l : list A) : list nat :=
  match l with
  | [] => []
  | a :: l' => if bad a then i :: mismatches_from bad (S i) l' else mismatches_from bad (S i) l'
  end.

Definition concat_strings (l : list string) : string := fold_right String.append EmptyString l.
